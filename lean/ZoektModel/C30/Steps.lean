/-
C30 — lemmas, part 4: every queue operation preserves `WF`, with the facts about its effect that the property
theorems need.
-/
import ZoektModel.C30.Ops
namespace ZoektModel.C30

theorem heapN_congr_on {lt lt' : Nat → Nat → Bool} {l : List Nat} {n : Nat}
    (h : ∀ k k', k < n → k' < n → lt' (at_ l k) (at_ l k') = lt (at_ l k) (at_ l k')) (hh : HeapN lt l n) : HeapN lt' l n :=
  fun k hk0 hkn => by rw [h k _ hkn (by omega)]; exact hh k hk0 hkn

theorem lessPrio_fields {x x' y y' : Item} (h1 : x'.indexed = x.indexed) (h2 : x'.state = x.state) (h3 : x'.seq = x.seq)
    (h4 : y'.indexed = y.indexed) (h5 : y'.state = y.state) (h6 : y'.seq = y.seq) : lessPrio x' y' = lessPrio x y := by
  simp only [lessPrio, h1, h2, h3, h4, h5, h6]

theorem upd_upd (l : List Item) (a : Nat) (f g : Item → Item) (hf : ∀ x, (f x).id = x.id) :
    upd (upd l a f) a g = upd l a (g ∘ f) := by
  simp only [upd, List.map_map]
  apply List.map_congr_left
  intro x _
  simp only [Function.comp]
  by_cases h : x.id = a
  · simp [h, hf]
  · simp [h]

theorem modify_modify (q : Q) (a : Nat) (f g : Item → Item) (hf : ∀ x, (f x).id = x.id) :
    modify (modify q a f) a g = modify q a (g ∘ f) := by
  simp only [modify, upd_upd _ _ _ _ hf]

theorem inPq_of_not_tracked {q : Q} (hc : Cons q) (a : Nat) (h : tracked q a = false) : ¬ InPq q.pq a := fun hin => by
  have := (idx_of_inPq hc a hin).1
  rw [h] at this; cases this

/-! ### getOrAdd -/

theorem find_append_new (l : List Item) (a b : Nat) (h : find l a = none) :
    find (l ++ [newItem a]) b = if b = a then some (newItem a) else find l b := by
  induction l with
  | nil => simp only [List.nil_append, find, newItem]; split <;> (rename_i h'; simp [h', eq_comm])
  | cons y r ih =>
    simp only [find] at h
    split at h
    · cases h
    · rename_i hy
      simp only [List.cons_append, find]
      by_cases hb : y.id = b
      · have : ¬ b = a := fun e => hy (hb.trans e)
        simp [hb, this]
      · simp only [hb, if_false]; exact ih h

theorem getOrAdd_spec (q : Q) (a : Nat) (hw : WF q) :
    WF (getOrAdd q a) ∧ tracked (getOrAdd q a) a = true ∧ (getOrAdd q a).pq = q.pq ∧
      (∀ b, itemD (getOrAdd q a) b = itemD q b) ∧ (∀ b, tracked (getOrAdd q a) b = (tracked q b || b == a)) ∧
      (getOrAdd q a).seq = q.seq ∧ (getOrAdd q a).dur = q.dur ∧ (getOrAdd q a).maxB = q.maxB := by
  unfold getOrAdd
  by_cases ht : tracked q a = true
  · rw [if_pos ht]
    refine ⟨hw, ht, rfl, fun _ => rfl, fun b => ?_, rfl, rfl, rfl⟩
    by_cases hb : b = a
    · subst hb; simp [ht]
    · simp [hb]
  · rw [if_neg ht]
    have hnone : find q.items a = none := by
      simp only [tracked] at ht; cases hf : find q.items a <;> simp_all
    have hit : ∀ b, itemD ({ q with items := q.items ++ [newItem a] } : Q) b = itemD q b := by
      intro b
      simp only [itemD, find_append_new _ _ _ hnone]
      by_cases hb : b = a
      · subst hb; simp [hnone]
      · simp [hb]
    have htr : ∀ b, tracked ({ q with items := q.items ++ [newItem a] } : Q) b = (tracked q b || b == a) := by
      intro b
      simp only [tracked, find_append_new _ _ _ hnone]
      by_cases hb : b = a
      · subst hb; simp
      · simp [hb]
    refine ⟨⟨⟨hw.1.inj, ?_, ?_, ?_⟩, ?_⟩, by rw [htr]; simp, rfl, hit, htr, rfl, rfl, rfl⟩
    · show ((q.items ++ [newItem a]).map (·.id)).Nodup
      rw [List.map_append, List.nodup_append]
      refine ⟨hw.1.keys, by simp, ?_⟩
      intro x hx y hy
      simp only [List.map_cons, List.map_nil, List.mem_singleton] at hy
      subst hy
      obtain ⟨z, hz, rfl⟩ := List.mem_map.mp hx
      exact fun e => (find_none_iff.mp hnone) z hz e
    · intro i hi
      have := hw.1.slot i hi
      rw [htr, hit]
      exact ⟨by simp [this.1], this.2⟩
    · intro b hb hnb
      rw [hit]
      rw [htr] at hb
      by_cases hba : b = a
      · subst hba
        simp only [itemD, hnone]; rfl
      · exact hw.1.off b (by simpa [hba] using hb) hnb
    · exact heapN_congr (fun x y => by simp only [lessId, hit]) hw.2

/-! ### changing the fields of one tracked item, then repairing the heap -/

theorem heapIdx_modify (q : Q) (a : Nat) (f : Item → Item) (hid : ∀ x, (f x).id = x.id)
    (hidx : ∀ x, (f x).heapIdx = x.heapIdx) (b : Nat) : (itemD (modify q a f) b).heapIdx = (itemD q b).heapIdx := by
  by_cases h : b = a
  · subst h
    by_cases ht : tracked q b = true
    · rw [itemD_modify_same _ _ _ hid ht, hidx]
    · have hn : find q.items b = none := by
        simp only [tracked] at ht; cases hf : find q.items b <;> simp_all
      simp only [itemD, modify, find_upd_same hid, hn]; rfl
  · rw [itemD_modify_other _ _ _ _ hid h]

/-- the item is not queued: any change of its fields keeps the queue well-formed -/
theorem wf_modify_off {q : Q} (hw : WF q) (a : Nat) (f : Item → Item) (hid : ∀ x, (f x).id = x.id)
    (hidx : ∀ x, (f x).heapIdx = x.heapIdx) (hn : ¬ InPq q.pq a) : WF (modify q a f) := by
  refine ⟨cons_modify hw.1 a f hid hidx, ?_⟩
  apply heapN_congr_on _ hw.2
  intro k k' hk hk'
  apply lessId_modify_other _ _ _ hid
  · exact fun e => hn ⟨k, hk, e⟩
  · exact fun e => hn ⟨k', hk', e⟩

/-- the item is queued at slot `i`: after any change of its fields `heap.Fix(i)` restores the invariant -/
theorem wf_modify_fix {q : Q} (hw : WF q) (a : Nat) (f : Item → Item) (hid : ∀ x, (f x).id = x.id)
    (hidx : ∀ x, (f x).heapIdx = x.heapIdx) (ht : tracked q a = true) (hq : 0 ≤ (itemD q a).heapIdx) :
    WF (hfix (modify q a f) (itemD q a).heapIdx.toNat) ∧ Same (modify q a f) (hfix (modify q a f) (itemD q a).heapIdx.toNat) ∧
      PermN q.pq (hfix (modify q a f) (itemD q a).heapIdx.toNat).pq q.pq.length := by
  have hs := slot_of_idx hw.1 a ht hq
  have hc2 := cons_modify hw.1 a f hid hidx
  apply hfix_wf (modify q a f) _ hc2 hs.1
  apply fixInv_of_change (lessId_swo q) q.pq _ hw.1.inj hs.1 hw.2
  intro x y hx hy
  rw [hs.2] at hx hy
  exact lessId_modify_other _ _ _ hid x y hx hy

/-- … and `heap.Remove(i)` removes exactly it -/
theorem wf_modify_remove {q : Q} (hw : WF q) (a : Nat) (f : Item → Item) (hid : ∀ x, (f x).id = x.id)
    (hidx : ∀ x, (f x).heapIdx = x.heapIdx) (ht : tracked q a = true) (hq : 0 ≤ (itemD q a).heapIdx) :
    let r := hremove (modify q a f) (itemD q a).heapIdx.toNat
    WF r.1 ∧ Same (modify q a f) r.1 ∧ r.2 = a ∧ (∀ b, InPq r.1.pq b ↔ InPq q.pq b ∧ b ≠ a) ∧ (itemD r.1 a).heapIdx = -1 := by
  have hs := slot_of_idx hw.1 a ht hq
  have hc2 := cons_modify hw.1 a f hid hidx
  have := hremove_wf (modify q a f) _ hc2 hs.1 (lessId q) (lessId_swo q) hw.2 (by
    intro x y hx hy
    have e : at_ (modify q a f).pq (itemD q a).heapIdx.toNat = a := hs.2
    rw [e] at hx hy
    exact lessId_modify_other _ _ _ hid x y hx hy)
  have e : at_ (modify q a f).pq (itemD q a).heapIdx.toNat = a := hs.2
  rw [e] at this
  exact this

theorem Same.untl {q q' : Q} (h : Same q q') (b : Nat) : (itemD q' b).untl = (itemD q b).untl := by
  have := congrArg Item.untl (h.it b); exact this

theorem Same.cf {q q' : Q} (h : Same q q') (b : Nat) : (itemD q' b).cf = (itemD q b).cf := by
  have := congrArg Item.cf (h.it b); exact this

theorem Same.opts {q q' : Q} (h : Same q q') (b : Nat) : (itemD q' b).opts = (itemD q b).opts := by
  have := congrArg Item.opts (h.it b); exact this

/-! ### enqueue (the common tail of AddOrUpdate and Bump) -/

theorem enqueue_spec (q : Q) (a : Nat) (now : Int) (hw : WF q) (ht : tracked q a = true) (hoff : (itemD q a).heapIdx < 0) :
    WF (enqueue q a now) ∧ (∀ b, tracked (enqueue q a now) b = tracked q b) ∧
      (∀ b, InPq (enqueue q a now).pq b ↔ InPq q.pq b ∨ (b = a ∧ (itemD q a).untl < now)) ∧
      (∀ b, (itemD (enqueue q a now) b).untl = (itemD q b).untl) ∧
      (∀ b, (itemD (enqueue q a now) b).opts = (itemD q b).opts) ∧
      (enqueue q a now).dur = q.dur ∧ (enqueue q a now).maxB = q.maxB ∧ q.seq ≤ (enqueue q a now).seq := by
  unfold enqueue
  by_cases hal : allow (itemD q a) now = true
  · rw [if_pos hal]
    have hlt : (itemD q a).untl < now := by simpa [allow] using hal
    have hn : ¬ InPq q.pq a := not_inPq_of_neg hw.1 a hoff
    let q1 : Q := { q with seq := q.seq + 1 }
    have hw1 : WF q1 := ⟨⟨hw.1.inj, hw.1.keys, hw.1.slot, hw.1.off⟩, hw.2⟩
    let g : Item → Item := fun x => { x with seq := q1.seq, date := now }
    have gid : ∀ x, (g x).id = x.id := fun _ => rfl
    have gidx : ∀ x, (g x).heapIdx = x.heapIdx := fun _ => rfl
    have hw2 : WF (modify q1 a g) := wf_modify_off hw1 a g gid gidx hn
    have ht2 : tracked (modify q1 a g) a = true := by rw [tracked_modify _ _ _ _ gid]; exact ht
    have hp := hpush_wf (modify q1 a g) a hw2 ht2 hn
    have hitem : ∀ b, (itemD (modify q1 a g) b).untl = (itemD q b).untl ∧ (itemD (modify q1 a g) b).opts = (itemD q b).opts := by
      intro b
      by_cases hb : b = a
      · subst hb; rw [itemD_modify_same q1 _ g gid ht]; exact ⟨rfl, rfl⟩
      · rw [itemD_modify_other q1 _ _ g gid hb]; exact ⟨rfl, rfl⟩
    refine ⟨hp.1, ?_, ?_, ?_, ?_, hp.2.1.dur, hp.2.1.maxB, ?_⟩
    · intro b; rw [hp.2.1.tr, tracked_modify _ _ _ _ gid]; rfl
    · intro b
      rw [hp.2.2 b]
      constructor
      · rintro (h | h)
        · exact Or.inl h
        · exact Or.inr ⟨h, hlt⟩
      · rintro (h | ⟨h, _⟩)
        · exact Or.inl h
        · exact Or.inr h
    · intro b; rw [hp.2.1.untl, (hitem b).1]
    · intro b; rw [hp.2.1.opts, (hitem b).2]
    · rw [hp.2.1.seq]; show q.seq ≤ q.seq + 1; omega
  · rw [if_neg hal]
    have hlt : ¬ (itemD q a).untl < now := by simpa [allow] using hal
    refine ⟨hw, fun _ => rfl, fun b => ?_, fun _ => rfl, fun _ => rfl, rfl, rfl, Nat.le_refl _⟩
    constructor
    · exact Or.inl
    · rintro (h | ⟨_, h⟩)
      · exact h
      · exact absurd h hlt

/-! ### AddOrUpdate -/

theorem addOrUpdate_spec (q : Q) (o : Opts) (now : Int) (hw : WF q) :
    WF (addOrUpdate q o now) ∧
      (∀ b, tracked (addOrUpdate q o now) b = (tracked q b || b == o.rid)) ∧
      (∀ b, InPq (addOrUpdate q o now).pq b ↔ InPq q.pq b ∨ (b = o.rid ∧ ¬ InPq q.pq o.rid ∧ (itemD q o.rid).untl < now)) ∧
      (itemD (addOrUpdate q o now) o.rid).opts = o ∧
      (∀ b, (itemD (addOrUpdate q o now) b).untl = (itemD q b).untl) ∧
      (addOrUpdate q o now).dur = q.dur ∧ (addOrUpdate q o now).maxB = q.maxB := by
  have h1 := getOrAdd_spec q o.rid hw
  unfold addOrUpdate
  generalize getOrAdd q o.rid = q1 at h1
  obtain ⟨hw1, ht1, hpq1, hit1, htr1, _, hd1, hm1⟩ := h1
  let f : Item → Item := fun x => { x with indexed := false, opts := o }
  -- q2 is q1 with the options of o.rid brought up to date; in both cases it is `modify q1 o.rid f'` for a harmless f'
  have key : ∀ f' : Item → Item, (∀ x, (f' x).id = x.id) → (∀ x, (f' x).heapIdx = x.heapIdx) → (∀ x, (f' x).untl = x.untl) →
      (f' (itemD q1 o.rid)).opts = o →
      let q2 := modify q1 o.rid f'
      WF (if (itemD q2 o.rid).heapIdx < 0 then enqueue q2 o.rid now else hfix q2 (itemD q2 o.rid).heapIdx.toNat) ∧
      (∀ b, tracked (if (itemD q2 o.rid).heapIdx < 0 then enqueue q2 o.rid now else hfix q2 (itemD q2 o.rid).heapIdx.toNat) b = (tracked q b || b == o.rid)) ∧
      (∀ b, InPq (if (itemD q2 o.rid).heapIdx < 0 then enqueue q2 o.rid now else hfix q2 (itemD q2 o.rid).heapIdx.toNat).pq b ↔
        InPq q.pq b ∨ (b = o.rid ∧ ¬ InPq q.pq o.rid ∧ (itemD q o.rid).untl < now)) ∧
      (itemD (if (itemD q2 o.rid).heapIdx < 0 then enqueue q2 o.rid now else hfix q2 (itemD q2 o.rid).heapIdx.toNat) o.rid).opts = o ∧
      (∀ b, (itemD (if (itemD q2 o.rid).heapIdx < 0 then enqueue q2 o.rid now else hfix q2 (itemD q2 o.rid).heapIdx.toNat) b).untl = (itemD q b).untl) ∧
      (if (itemD q2 o.rid).heapIdx < 0 then enqueue q2 o.rid now else hfix q2 (itemD q2 o.rid).heapIdx.toNat).dur = q.dur ∧
      (if (itemD q2 o.rid).heapIdx < 0 then enqueue q2 o.rid now else hfix q2 (itemD q2 o.rid).heapIdx.toNat).maxB = q.maxB := by
    intro f' hid hidx huntl hopts q2
    have hidx2 : (itemD q2 o.rid).heapIdx = (itemD q1 o.rid).heapIdx := heapIdx_modify q1 o.rid f' hid hidx o.rid
    have ht2 : ∀ b, tracked q2 b = tracked q1 b := fun b => tracked_modify q1 o.rid b f' hid
    have hitem2 : ∀ b, (itemD q2 b).untl = (itemD q b).untl := by
      intro b
      by_cases hb : b = o.rid
      · rw [hb]; show (itemD (modify q1 o.rid f') o.rid).untl = _
        rw [itemD_modify_same _ _ _ hid ht1, huntl, hit1]
      · show (itemD (modify q1 o.rid f') b).untl = _
        rw [itemD_modify_other _ _ _ _ hid hb, hit1]
    have hopts2 : (itemD q2 o.rid).opts = o := by
      show (itemD (modify q1 o.rid f') o.rid).opts = _
      rw [itemD_modify_same _ _ _ hid ht1]; exact hopts
    by_cases hneg : (itemD q2 o.rid).heapIdx < 0
    · simp only [hneg, if_true]
      have hn1 : ¬ InPq q1.pq o.rid := not_inPq_of_neg hw1.1 o.rid (by rw [← hidx2]; exact hneg)
      have hw2 : WF q2 := wf_modify_off hw1 o.rid f' hid hidx hn1
      have he := enqueue_spec q2 o.rid now hw2 (by rw [ht2]; exact ht1) hneg
      refine ⟨he.1, ?_, ?_, ?_, ?_, ?_, ?_⟩
      · intro b; rw [he.2.1 b, ht2, htr1]
      · intro b
        rw [he.2.2.1 b, hitem2]
        show InPq q1.pq b ∨ _ ↔ _
        rw [hpq1] at hn1 ⊢
        constructor
        · rintro (h | ⟨h1, h2⟩)
          · exact Or.inl h
          · exact Or.inr ⟨h1, hn1, h2⟩
        · rintro (h | ⟨h1, _, h2⟩)
          · exact Or.inl h
          · exact Or.inr ⟨h1, h2⟩
      · rw [he.2.2.2.2.1]; exact hopts2
      · intro b; rw [he.2.2.2.1 b, hitem2]
      · rw [he.2.2.2.2.2.1]; exact hd1
      · rw [he.2.2.2.2.2.2.1]; exact hm1
    · simp only [hneg, if_false]
      have hq : 0 ≤ (itemD q1 o.rid).heapIdx := by rw [← hidx2]; omega
      have hf := wf_modify_fix hw1 o.rid f' hid hidx ht1 hq
      rw [hidx2]
      have hin1 : InPq q1.pq o.rid := ⟨_, (slot_of_idx hw1.1 o.rid ht1 hq).1, (slot_of_idx hw1.1 o.rid ht1 hq).2⟩
      have hmem : ∀ b, InPq (hfix q2 (itemD q1 o.rid).heapIdx.toNat).pq b ↔ InPq q1.pq b := by
        intro b
        rw [inPq_iff_inN, hf.2.2.1, hf.2.2.2.1 b]
        exact Iff.rfl
      refine ⟨hf.1, ?_, ?_, ?_, ?_, ?_, ?_⟩
      · intro b; rw [hf.2.1.tr, ht2, htr1]
      · intro b
        rw [hmem b, hpq1]
        rw [hpq1] at hin1
        constructor
        · exact Or.inl
        · rintro (h | ⟨_, h, _⟩)
          · exact h
          · exact absurd hin1 h
      · rw [hf.2.1.opts]; exact hopts2
      · intro b; rw [hf.2.1.untl, hitem2]
      · rw [hf.2.1.dur]; exact hd1
      · rw [hf.2.1.maxB]; exact hm1
  by_cases hne : (itemD q1 o.rid).opts ≠ o
  · simp only [hne, if_true, ne_eq, not_false_eq_true]
    have fid : ∀ x, (f x).id = x.id := fun _ => rfl
    have fidx : ∀ x, (f x).heapIdx = x.heapIdx := fun _ => rfl
    have funtl : ∀ x, (f x).untl = x.untl := fun _ => rfl
    exact key f fid fidx funtl rfl
  · have heq : (itemD q1 o.rid).opts = o := by simpa using hne
    simp only [hne, if_false]
    have e : modify q1 o.rid id = q1 := by
      simp only [modify, upd]
      have : (q1.items.map fun x => if x.id = o.rid then id x else x) = q1.items := by
        conv => rhs; rw [← List.map_id q1.items]
        apply List.map_congr_left; intro x _; simp
      rw [this]
    have := key id (fun _ => rfl) (fun _ => rfl) (fun _ => rfl) heq
    rw [e] at this
    exact this

/-! ### SetIndexed -/

theorem find_of_mem_nodup {l : List Item} (hk : (l.map (·.id)).Nodup) {y : Item} (hy : y ∈ l) : find l y.id = some y := by
  induction l with
  | nil => cases hy
  | cons z r ih =>
    simp only [List.map_cons, List.nodup_cons] at hk
    simp only [find]
    rcases List.mem_cons.mp hy with rfl | hy'
    · simp
    · have : z.id ≠ y.id := fun e => hk.1 (by rw [e]; exact List.mem_map.mpr ⟨y, hy', rfl⟩)
      simp only [this, if_false]
      exact ih hk.2 hy'

theorem setIdx_self (x : Item) (k : Int) (h : x.heapIdx = k) : setIdx k x = x := by
  cases x; simp_all [setIdx]

/-- `item.heapIdx = -1` after `heap.Remove` already set it -/
theorem modify_setIdx_neg {q : Q} (hc : Cons q) (a : Nat) (h : (itemD q a).heapIdx = -1) : modify q a (setIdx (-1)) = q := by
  have : upd q.items a (setIdx (-1)) = q.items := by
    simp only [upd]
    conv => rhs; rw [← List.map_id q.items]
    apply List.map_congr_left
    intro y hy
    by_cases hya : y.id = a
    · have hf := find_of_mem_nodup hc.keys hy
      rw [hya] at hf
      have : itemD q a = y := by simp [itemD, hf]
      rw [this] at h
      simp [hya, setIdx_self y (-1) h]
    · simp [hya]
  simp only [modify, this]

theorem backoffDur_eq (dur maxB : Int) (now : Int) (x : Item) :
    (failItem dur maxB now x).untl = now + backoffDur dur maxB x.cf ∧ (failItem dur maxB now x).id = x.id ∧
    (failItem dur maxB now x).heapIdx = x.heapIdx ∧ (failItem dur maxB now x).opts = x.opts := by
  unfold failItem backoffDur
  simp only []
  split <;> simp

theorem setIndexed_spec (q : Q) (o : Opts) (st : Nat) (now : Int) (hw : WF q) :
    WF (setIndexed q o st now) ∧
      (∀ b, tracked (setIndexed q o st now) b = (tracked q b || b == o.rid)) ∧
      (∀ b, InPq (setIndexed q o st now).pq b ↔ InPq q.pq b ∧ ¬ (b = o.rid ∧ st = stFail)) ∧
      (st = stFail → (itemD (setIndexed q o st now) o.rid).untl = now + backoffDur q.dur q.maxB (itemD q o.rid).cf) ∧
      (∀ b, b ≠ o.rid → (itemD (setIndexed q o st now) b).untl = (itemD q b).untl) ∧
      (setIndexed q o st now).dur = q.dur ∧ (setIndexed q o st now).maxB = q.maxB := by
  have h1 := getOrAdd_spec q o.rid hw
  unfold setIndexed
  generalize getOrAdd q o.rid = q1 at h1
  obtain ⟨hw1, ht1, hpq1, hit1, htr1, _, hd1, hm1⟩ := h1
  let f : Item → Item := fun x => { x with state := st }
  have fid : ∀ x, (f x).id = x.id := fun _ => rfl
  by_cases hst : st ≠ stFail
  · simp only [hst, if_true, ne_eq, not_false_eq_true]
    let g : Item → Item := fun x => { x with indexed := decide (o = x.opts), cf := 0, untl := tEpoch }
    have e3 : modify (modify q1 o.rid f) o.rid g = modify q1 o.rid (g ∘ f) := modify_modify q1 o.rid f g fid
    show (fun q3 : Q => WF (if (itemD q3 o.rid).heapIdx ≥ 0 then hfix q3 (itemD q3 o.rid).heapIdx.toNat else q3) ∧ _)
      (modify (modify q1 o.rid f) o.rid g)
    rw [e3]
    have hid : ∀ x, ((g ∘ f) x).id = x.id := fun _ => rfl
    have hidx : ∀ x, ((g ∘ f) x).heapIdx = x.heapIdx := fun _ => rfl
    have hidx3 := heapIdx_modify q1 o.rid (g ∘ f) hid hidx o.rid
    have huntl3 : ∀ b, b ≠ o.rid → (itemD (modify q1 o.rid (g ∘ f)) b).untl = (itemD q b).untl := by
      intro b hb; rw [itemD_modify_other _ _ _ _ hid hb, hit1]
    have ht3 : ∀ b, tracked (modify q1 o.rid (g ∘ f)) b = (tracked q b || b == o.rid) := by
      intro b; rw [tracked_modify _ _ _ _ hid, htr1]
    simp only [hst, not_false_eq_true, and_false, not_false_eq_true, and_true, false_imp_iff, true_and]
    by_cases hq : (itemD (modify q1 o.rid (g ∘ f)) o.rid).heapIdx ≥ 0
    · simp only [hq, if_true]
      rw [hidx3] at hq ⊢
      have hf := wf_modify_fix hw1 o.rid (g ∘ f) hid hidx ht1 hq
      refine ⟨hf.1, ?_, ?_, ?_, ?_, ?_⟩
      · intro b; rw [hf.2.1.tr, ht3]
      · intro b
        rw [inPq_iff_inN, hf.2.2.1, hf.2.2.2.1 b, ← hpq1]; exact Iff.rfl
      · intro b hb; rw [hf.2.1.untl, huntl3 b hb]
      · rw [hf.2.1.dur]; exact hd1
      · rw [hf.2.1.maxB]; exact hm1
    · simp only [hq, if_false]
      rw [hidx3] at hq
      have hn1 : ¬ InPq q1.pq o.rid := not_inPq_of_neg hw1.1 o.rid (by omega)
      refine ⟨wf_modify_off hw1 o.rid (g ∘ f) hid hidx hn1, ht3, ?_, huntl3, hd1, hm1⟩
      intro b; show InPq q1.pq b ↔ _; rw [hpq1]
  · have hst' : st = stFail := by simpa using hst
    simp only [hst, if_false]
    let g : Item → Item := failItem q.dur q.maxB now
    have gf := fun x => backoffDur_eq q.dur q.maxB now x
    have e3 : modify (modify q1 o.rid f) o.rid g = modify q1 o.rid (g ∘ f) := modify_modify q1 o.rid f g fid
    show (fun q3 : Q => WF (if (itemD q3 o.rid).heapIdx ≥ 0 then modify (hremove q3 (itemD q3 o.rid).heapIdx.toNat).1 o.rid (setIdx (-1)) else q3) ∧ _)
      (modify (modify q1 o.rid f) o.rid g)
    rw [e3]
    have hid : ∀ x, ((g ∘ f) x).id = x.id := fun x => (gf (f x)).2.1
    have hidx : ∀ x, ((g ∘ f) x).heapIdx = x.heapIdx := fun x => (gf (f x)).2.2.1
    have hidx3 := heapIdx_modify q1 o.rid (g ∘ f) hid hidx o.rid
    have huntl3 : ∀ b, b ≠ o.rid → (itemD (modify q1 o.rid (g ∘ f)) b).untl = (itemD q b).untl := by
      intro b hb; rw [itemD_modify_other _ _ _ _ hid hb, hit1]
    have huntl3' : (itemD (modify q1 o.rid (g ∘ f)) o.rid).untl = now + backoffDur q.dur q.maxB (itemD q o.rid).cf := by
      rw [itemD_modify_same _ _ _ hid ht1]
      show (failItem q.dur q.maxB now (f (itemD q1 o.rid))).untl = _
      rw [(gf _).1, hit1]
    have ht3 : ∀ b, tracked (modify q1 o.rid (g ∘ f)) b = (tracked q b || b == o.rid) := by
      intro b; rw [tracked_modify _ _ _ _ hid, htr1]
    simp only [hst', true_implies, and_true]
    by_cases hq : (itemD (modify q1 o.rid (g ∘ f)) o.rid).heapIdx ≥ 0
    · simp only [hq, if_true]
      rw [hidx3] at hq ⊢
      have hr := wf_modify_remove hw1 o.rid (g ∘ f) hid hidx ht1 hq
      simp only [] at hr
      rw [modify_setIdx_neg hr.1.1 o.rid hr.2.2.2.2]
      refine ⟨hr.1, ?_, ?_, ?_, ?_, ?_, ?_⟩
      · intro b; rw [hr.2.1.tr, ht3]
      · intro b; rw [hr.2.2.2.1 b, hpq1]
      · rw [hr.2.1.untl]; exact huntl3'
      · intro b hb; rw [hr.2.1.untl, huntl3 b hb]
      · rw [hr.2.1.dur]; exact hd1
      · rw [hr.2.1.maxB]; exact hm1
    · simp only [hq, if_false]
      rw [hidx3] at hq
      have hn1 : ¬ InPq q1.pq o.rid := not_inPq_of_neg hw1.1 o.rid (by omega)
      refine ⟨wf_modify_off hw1 o.rid (g ∘ f) hid hidx hn1, ht3, ?_, huntl3', huntl3, hd1, hm1⟩
      intro b
      show InPq q1.pq b ↔ _
      rw [hpq1] at hn1 ⊢
      constructor
      · intro h; exact ⟨h, fun e => hn1 (e ▸ h)⟩
      · exact fun h => h.1

/-! ### Pop -/

theorem length_pos_of_not_isEmpty {l : List Nat} (h : ¬ l.isEmpty = true) : 0 < l.length := by
  cases l with
  | nil => simp at h
  | cons a r => simp

theorem pop_empty (q : Q) (h : q.pq.isEmpty = true) : pop q = (q, none) := by
  unfold pop; rw [if_pos h]

theorem pop_nonempty (q : Q) (h : q.pq.isEmpty = false) :
    pop q = (modify (hpop q).1 (hpop q).2 (fun x => { x with date := tEpoch }),
      some ((itemD (hpop q).1 (hpop q).2).opts, (itemD (hpop q).1 (hpop q).2).date)) := by
  unfold pop; rw [if_neg (by rw [h]; exact Bool.false_ne_true)]

theorem pop_spec (q : Q) (hw : WF q) :
    WF (pop q).1 ∧ (∀ b, tracked (pop q).1 b = tracked q b) ∧
    ((pop q).2 = none ↔ q.pq = []) ∧
    (∀ o d, (pop q).2 = some (o, d) →
      ∃ a, InPq q.pq a ∧ (itemD q a).opts = o ∧ (itemD q a).date = d ∧
        (∀ b, InPq q.pq b → lessPrio (itemD q b) (itemD q a) = false) ∧
        (∀ b, InPq (pop q).1.pq b ↔ InPq q.pq b ∧ b ≠ a)) ∧
    (∀ b, (itemD (pop q).1 b).untl = (itemD q b).untl) ∧
    (pop q).1.dur = q.dur ∧ (pop q).1.maxB = q.maxB := by
  cases he : q.pq.isEmpty
  case true =>
    rw [pop_empty q he]
    have : q.pq = [] := by simpa using he
    refine ⟨hw, fun _ => rfl, by simp [this], ?_, fun _ => rfl, rfl, rfl⟩
    intro o d h; cases h
  case false =>
    rw [pop_nonempty q he]
    have hpos := length_pos_of_not_isEmpty (l := q.pq) (by rw [he]; exact Bool.false_ne_true)
    have hp := hpop_wf q hw hpos
    let g : Item → Item := fun x => { x with date := tEpoch }
    have gid : ∀ x, (g x).id = x.id := fun _ => rfl
    have gidx : ∀ x, (g x).heapIdx = x.heapIdx := fun _ => rfl
    have hnin : ¬ InPq (hpop q).1.pq (hpop q).2 := fun h => ((hp.2.2.2.1 _).mp h).2 rfl
    have hw' := wf_modify_off hp.1 (hpop q).2 g gid gidx hnin
    show WF (modify (hpop q).1 (hpop q).2 g) ∧ (∀ b, tracked (modify (hpop q).1 (hpop q).2 g) b = tracked q b) ∧ _
    refine ⟨hw', ?_, ?_, ?_, ?_, hp.2.1.dur, hp.2.1.maxB⟩
    · intro b; rw [tracked_modify _ _ _ _ gid, hp.2.1.tr]
    · constructor
      · intro h; cases h
      · intro h; rw [h] at hpos; simp at hpos
    · intro o d h
      injection h with h
      injection h with h1 h2
      refine ⟨(hpop q).2, ?_, ?_, ?_, ?_, ?_⟩
      · rw [hp.2.2.1]; exact ⟨0, hpos, rfl⟩
      · rw [← h1]; exact (hp.2.1.opts _).symm
      · rw [← h2]; have := congrArg Item.date (hp.2.1.it (hpop q).2); exact this.symm
      · rintro b ⟨k, hk, e⟩
        have := hp.2.2.2.2.1 k hk
        rw [e] at this; exact this
      · intro b; exact hp.2.2.2.1 b
    · intro b
      show (itemD (modify (hpop q).1 (hpop q).2 g) b).untl = _
      by_cases hb : b = (hpop q).2
      · rw [hb, itemD_modify_same _ _ _ gid (by rw [hp.2.1.tr]; exact (idx_of_inPq hw.1 _ (by rw [hp.2.2.1]; exact ⟨0, hpos, rfl⟩)).1)]
        exact hp.2.1.untl _
      · rw [itemD_modify_other _ _ _ _ gid hb]; exact hp.2.1.untl _

/-! ### Bump -/

def bumpStep (now : Int) (acc : Q × List Nat) (id : Nat) : Q × List Nat :=
  if !tracked acc.1 id then (acc.1, acc.2 ++ [id])
  else if (itemD acc.1 id).heapIdx < 0 then (enqueue acc.1 id now, acc.2)
  else acc

theorem bump_eq (q : Q) (ids : List Nat) (now : Int) : bump q ids now = ids.foldl (bumpStep now) (q, []) := rfl

theorem neg_iff_not_inPq {q : Q} (hc : Cons q) (a : Nat) (ht : tracked q a = true) : (itemD q a).heapIdx < 0 ↔ ¬ InPq q.pq a := by
  constructor
  · exact not_inPq_of_neg hc a
  · intro hn; rw [hc.off a ht hn]; omega

theorem bump_fold (q0 : Q) (now : Int) (ids : List Nat) (acc : Q × List Nat) (done : List Nat)
    (hw : WF acc.1) (htr : ∀ b, tracked acc.1 b = tracked q0 b) (hu : ∀ b, (itemD acc.1 b).untl = (itemD q0 b).untl)
    (hin : ∀ b, InPq acc.1.pq b ↔ InPq q0.pq b ∨ (b ∈ done ∧ tracked q0 b = true ∧ (itemD q0 b).untl < now))
    (hmiss : acc.2 = done.filter fun id => !tracked q0 id) (hd : acc.1.dur = q0.dur ∧ acc.1.maxB = q0.maxB) :
    let r := ids.foldl (bumpStep now) acc
    WF r.1 ∧ (∀ b, tracked r.1 b = tracked q0 b) ∧ (∀ b, (itemD r.1 b).untl = (itemD q0 b).untl) ∧
      (∀ b, InPq r.1.pq b ↔ InPq q0.pq b ∨ (b ∈ done ++ ids ∧ tracked q0 b = true ∧ (itemD q0 b).untl < now)) ∧
      r.2 = (done ++ ids).filter (fun id => !tracked q0 id) ∧ r.1.dur = q0.dur ∧ r.1.maxB = q0.maxB := by
  induction ids generalizing acc done with
  | nil => simp only [List.foldl_nil, List.append_nil]; exact ⟨hw, htr, hu, hin, hmiss, hd.1, hd.2⟩
  | cons id rest ih =>
    simp only [List.foldl_cons]
    have happ : done ++ id :: rest = (done ++ [id]) ++ rest := by simp
    rw [happ]
    apply ih (bumpStep now acc id) (done ++ [id])
    all_goals unfold bumpStep
    all_goals by_cases ht : tracked acc.1 id = true
    all_goals by_cases hneg : (itemD acc.1 id).heapIdx < 0
    all_goals simp only [ht, hneg, Bool.not_true, Bool.not_false, if_true, if_false, Bool.false_eq_true]
    -- tracked, not queued: enqueue
    · exact (enqueue_spec acc.1 id now hw ht hneg).1
    · exact hw
    · exact hw
    · exact hw
    · intro b; rw [(enqueue_spec acc.1 id now hw ht hneg).2.1, htr]
    · exact htr
    · exact htr
    · exact htr
    · intro b; rw [(enqueue_spec acc.1 id now hw ht hneg).2.2.2.1, hu]
    · exact hu
    · exact hu
    · exact hu
    · intro b
      rw [(enqueue_spec acc.1 id now hw ht hneg).2.2.1 b, hin b, hu id]
      rw [htr] at ht
      constructor
      · rintro ((h | ⟨h1, h2⟩) | ⟨h1, h2⟩)
        · exact Or.inl h
        · exact Or.inr ⟨by simp [h1], h2⟩
        · subst h1; exact Or.inr ⟨by simp, ht, h2⟩
      · rintro (h | ⟨h1, h2, h3⟩)
        · exact Or.inl (Or.inl h)
        · rcases List.mem_append.mp h1 with h1 | h1
          · exact Or.inl (Or.inr ⟨h1, h2, h3⟩)
          · simp only [List.mem_singleton] at h1; subst h1; exact Or.inr ⟨rfl, h3⟩
    · -- tracked and already queued
      intro b
      rw [hin b]
      have hq : InPq acc.1.pq id := by
        by_cases h : InPq acc.1.pq id
        · exact h
        · exact absurd ((neg_iff_not_inPq hw.1 id ht).mpr h) hneg
      constructor
      · rintro (h | ⟨h1, h2⟩)
        · exact Or.inl h
        · exact Or.inr ⟨by simp [h1], h2⟩
      · rintro (h | ⟨h1, h2, h3⟩)
        · exact Or.inl h
        · rcases List.mem_append.mp h1 with h1 | h1
          · exact Or.inr ⟨h1, h2, h3⟩
          · simp only [List.mem_singleton] at h1; subst h1
            exact (hin b).mp hq
    · intro b
      rw [hin b]
      have : tracked q0 id = false := by rw [← htr]; simpa using ht
      constructor
      · rintro (h | ⟨h1, h2⟩)
        · exact Or.inl h
        · exact Or.inr ⟨by simp [h1], h2⟩
      · rintro (h | ⟨h1, h2, h3⟩)
        · exact Or.inl h
        · rcases List.mem_append.mp h1 with h1 | h1
          · exact Or.inr ⟨h1, h2, h3⟩
          · simp only [List.mem_singleton] at h1; subst h1; rw [this] at h2; cases h2
    · intro b
      rw [hin b]
      have : tracked q0 id = false := by rw [← htr]; simpa using ht
      constructor
      · rintro (h | ⟨h1, h2⟩)
        · exact Or.inl h
        · exact Or.inr ⟨by simp [h1], h2⟩
      · rintro (h | ⟨h1, h2, h3⟩)
        · exact Or.inl h
        · rcases List.mem_append.mp h1 with h1 | h1
          · exact Or.inr ⟨h1, h2, h3⟩
          · simp only [List.mem_singleton] at h1; subst h1; rw [this] at h2; cases h2
    · rw [hmiss, List.filter_append]; rw [htr] at ht; simp [ht]
    · rw [hmiss, List.filter_append]; rw [htr] at ht; simp [ht]
    · have : tracked q0 id = false := by rw [← htr]; simpa using ht
      rw [hmiss, List.filter_append]; simp [this]
    · have : tracked q0 id = false := by rw [← htr]; simpa using ht
      rw [hmiss, List.filter_append]; simp [this]
    · have he := enqueue_spec acc.1 id now hw ht hneg
      exact ⟨he.2.2.2.2.2.1.trans hd.1, he.2.2.2.2.2.2.1.trans hd.2⟩
    · exact hd
    · exact hd
    · exact hd

theorem bump_spec (q : Q) (ids : List Nat) (now : Int) (hw : WF q) :
    WF (bump q ids now).1 ∧ (∀ b, tracked (bump q ids now).1 b = tracked q b) ∧
      (∀ b, (itemD (bump q ids now).1 b).untl = (itemD q b).untl) ∧
      (∀ b, InPq (bump q ids now).1.pq b ↔ InPq q.pq b ∨ (b ∈ ids ∧ tracked q b = true ∧ (itemD q b).untl < now)) ∧
      (bump q ids now).2 = ids.filter (fun id => !tracked q id) ∧
      (bump q ids now).1.dur = q.dur ∧ (bump q ids now).1.maxB = q.maxB := by
  rw [bump_eq]
  have := bump_fold q now ids (q, []) [] hw (fun _ => rfl) (fun _ => rfl) (fun b => by simp) rfl ⟨rfl, rfl⟩
  simpa using this

/-! ### MaybeRemoveMissing -/

theorem find_filter_ne (l : List Item) (a b : Nat) :
    find (l.filter fun x => x.id ≠ a) b = if b = a then none else find l b := by
  induction l with
  | nil => simp [find]
  | cons y r ih =>
    by_cases hy : y.id = a
    · have : (List.filter (fun x => decide (x.id ≠ a)) (y :: r)) = List.filter (fun x => decide (x.id ≠ a)) r := by
        simp [List.filter, hy]
      rw [this, ih]
      simp only [find]
      by_cases hb : b = a
      · simp [hb]
      · have : ¬ y.id = b := fun e => hb (e ▸ hy)
        simp [hb, this]
    · have : (List.filter (fun x => decide (x.id ≠ a)) (y :: r)) = y :: List.filter (fun x => decide (x.id ≠ a)) r := by
        simp [List.filter, hy]
      rw [this]
      simp only [find]
      by_cases hyb : y.id = b
      · have : ¬ b = a := fun e => hy (hyb.trans e)
        simp [hyb, this]
      · simp only [hyb, if_false]; exact ih

/-- dropping the map entry of an id that is not queued -/
theorem wf_delete {q : Q} (hw : WF q) (a : Nat) (hn : ¬ InPq q.pq a) :
    let q' : Q := { q with items := q.items.filter fun x => x.id ≠ a }
    WF q' ∧ (∀ b, tracked q' b = (tracked q b && b != a)) ∧ (∀ b, b ≠ a → itemD q' b = itemD q b) := by
  intro q'
  have hf : ∀ b, find q'.items b = if b = a then none else find q.items b := fun b => find_filter_ne q.items a b
  have hit : ∀ b, b ≠ a → itemD q' b = itemD q b := by
    intro b hb; simp only [itemD, hf, hb, if_false]
  have htr : ∀ b, tracked q' b = (tracked q b && b != a) := by
    intro b
    simp only [tracked, hf]
    by_cases hb : b = a
    · simp [hb]
    · simp [hb]
  have hne : ∀ k, k < q.pq.length → at_ q.pq k ≠ a := fun k hk e => hn ⟨k, hk, e⟩
  refine ⟨⟨⟨hw.1.inj, ?_, ?_, ?_⟩, ?_⟩, htr, hit⟩
  · show ((q.items.filter fun x => x.id ≠ a).map (·.id)).Nodup
    exact (List.filter_sublist.map _).nodup hw.1.keys
  · intro i hi
    have := hw.1.slot i hi
    show tracked q' (at_ q.pq i) = true ∧ (itemD q' (at_ q.pq i)).heapIdx = _
    rw [htr, hit _ (hne i hi)]
    exact ⟨by simp [this.1, hne i hi], this.2⟩
  · intro b hb hnb
    rw [htr] at hb
    simp only [Bool.and_eq_true, bne_iff_ne, ne_eq] at hb
    rw [hit b hb.2]
    exact hw.1.off b hb.1 hnb
  · apply heapN_congr_on _ hw.2
    intro k k' hk hk'
    show lessId q' (at_ q.pq k) (at_ q.pq k') = _
    simp only [lessId, hit _ (hne k hk), hit _ (hne k' hk')]

theorem removeOne_spec (q : Q) (a : Nat) (hw : WF q) :
    WF (removeOne q a) ∧ (∀ b, tracked (removeOne q a) b = (tracked q b && b != a)) ∧
      (∀ b, InPq (removeOne q a).pq b ↔ InPq q.pq b ∧ b ≠ a) ∧
      (∀ b, b ≠ a → setIdx 0 (itemD (removeOne q a) b) = setIdx 0 (itemD q b)) ∧
      (removeOne q a).dur = q.dur ∧ (removeOne q a).maxB = q.maxB ∧ (removeOne q a).seq = q.seq := by
  unfold removeOne
  by_cases hq : (itemD q a).heapIdx ≥ 0
  · simp only [hq, if_true]
    have ht : tracked q a = true := by
      cases ht : tracked q a
      · have : itemD q a = newItem a := by
          simp only [tracked] at ht
          cases hf : find q.items a <;> simp_all [itemD]
        rw [this] at hq; simp [newItem] at hq
      · rfl
    have hs := slot_of_idx hw.1 a ht hq
    have hr := hremove_wf q _ hw.1 hs.1 (lessId q) (lessId_swo q) hw.2 (fun _ _ _ _ => rfl)
    rw [hs.2] at hr
    have hn : ¬ InPq (hremove q (itemD q a).heapIdx.toNat).1.pq a := fun h => ((hr.2.2.2.1 a).mp h).2 rfl
    have hd := wf_delete hr.1 a hn
    simp only [] at hd
    refine ⟨hd.1, ?_, ?_, ?_, hr.2.1.dur, hr.2.1.maxB, hr.2.1.seq⟩
    · intro b; rw [hd.2.1 b, hr.2.1.tr]
    · intro b; exact hr.2.2.2.1 b
    · intro b hb; rw [hd.2.2 b hb]; exact hr.2.1.it b
  · simp only [hq, if_false]
    have hn : ¬ InPq q.pq a := fun h => hq (idx_of_inPq hw.1 a h).2
    have hd := wf_delete hw a hn
    simp only [] at hd
    refine ⟨hd.1, hd.2.1, ?_, ?_, by first | rfl | trivial, by first | rfl | trivial, by first | rfl | trivial⟩
    · intro b
      show InPq q.pq b ↔ _
      exact ⟨fun h => ⟨h, fun e => hn (e ▸ h)⟩, fun h => h.1⟩
    · intro b hb; rw [hd.2.2 b hb]

theorem removeFold_spec (gone : List Nat) (q : Q) (hw : WF q) :
    WF (gone.foldl removeOne q) ∧ (∀ b, tracked (gone.foldl removeOne q) b = (tracked q b && !gone.contains b)) ∧
      (∀ b, InPq (gone.foldl removeOne q).pq b ↔ InPq q.pq b ∧ ¬ b ∈ gone) ∧
      (∀ b, ¬ b ∈ gone → setIdx 0 (itemD (gone.foldl removeOne q) b) = setIdx 0 (itemD q b)) ∧
      (gone.foldl removeOne q).dur = q.dur ∧ (gone.foldl removeOne q).maxB = q.maxB ∧ (gone.foldl removeOne q).seq = q.seq := by
  induction gone generalizing q with
  | nil => exact ⟨hw, by simp, by simp, fun _ _ => rfl, rfl, rfl, rfl⟩
  | cons a r ih =>
    simp only [List.foldl_cons]
    have h1 := removeOne_spec q a hw
    have h2 := ih (removeOne q a) h1.1
    refine ⟨h2.1, ?_, ?_, ?_, h2.2.2.2.2.1.trans h1.2.2.2.2.1, h2.2.2.2.2.2.1.trans h1.2.2.2.2.2.1, h2.2.2.2.2.2.2.trans h1.2.2.2.2.2.2⟩
    · intro b
      rw [h2.2.1 b, h1.2.1 b, List.contains_cons]
      cases tracked q b <;> cases hb : (b == a) <;> cases r.contains b <;> simp [bne, hb]
    · intro b
      rw [h2.2.2.1 b, h1.2.2.1 b]
      simp only [List.mem_cons, not_or]
      constructor
      · rintro ⟨⟨h1, h2⟩, h3⟩; exact ⟨h1, h2, h3⟩
      · rintro ⟨h1, h2, h3⟩; exact ⟨⟨h1, h2⟩, h3⟩
    · intro b hb
      simp only [List.mem_cons, not_or] at hb
      rw [h2.2.2.2.1 b hb.2, h1.2.2.2.1 b hb.1]

theorem tracked_iff_mem (q : Q) (b : Nat) : tracked q b = true ↔ b ∈ q.items.map (·.id) := by
  simp only [tracked]
  constructor
  · intro h
    cases hf : find q.items b with
    | none => rw [hf] at h; cases h
    | some x => exact List.mem_map.mpr ⟨x, find_some_mem hf, find_some_id hf⟩
  · intro h
    cases hf : find q.items b with
    | none =>
      obtain ⟨x, hx, e⟩ := List.mem_map.mp h
      exact absurd e (find_none_iff.mp hf x hx)
    | some x => rfl

/-- `MaybeRemoveMissing`: when it runs (sizes differ) the queue afterwards tracks exactly the tracked ids that are in
    `ids`, reports exactly the others, and no removed id stays queued -/
theorem removeMissing_spec (q : Q) (ids : List Nat) (hw : WF q) :
    WF (removeMissing q ids).1 ∧
    (q.items.length = ids.length → (removeMissing q ids) = (q, [])) ∧
    (q.items.length ≠ ids.length →
      (∀ b, tracked (removeMissing q ids).1 b = (tracked q b && ids.contains b)) ∧
      (∀ b, b ∈ (removeMissing q ids).2 ↔ tracked q b = true ∧ ids.contains b = false) ∧
      (∀ b, InPq (removeMissing q ids).1.pq b ↔ InPq q.pq b ∧ ids.contains b = true) ∧
      (∀ b, ids.contains b = true → setIdx 0 (itemD (removeMissing q ids).1 b) = setIdx 0 (itemD q b))) ∧
    (∀ b, tracked (removeMissing q ids).1 b = true → (itemD (removeMissing q ids).1 b).untl = (itemD q b).untl) ∧
    (removeMissing q ids).1.dur = q.dur ∧ (removeMissing q ids).1.maxB = q.maxB := by
  unfold removeMissing
  by_cases hlen : q.items.length = ids.length
  · simp only [hlen, if_true]
    exact ⟨hw, fun _ => trivial, fun h => absurd rfl h, fun _ _ => by first | rfl | trivial, by first | rfl | trivial, by first | rfl | trivial⟩
  · simp only [hlen, if_false]
    have hf := removeFold_spec ((q.items.map (·.id)).filter fun id => !ids.contains id) q hw
    have hmem : ∀ b, b ∈ (q.items.map (·.id)).filter (fun id => !ids.contains id) ↔ tracked q b = true ∧ ids.contains b = false := by
      intro b
      rw [List.mem_filter, ← tracked_iff_mem]
      simp
    have htr : ∀ b, tracked (List.foldl removeOne q ((q.items.map (·.id)).filter fun id => !ids.contains id)) b = (tracked q b && ids.contains b) := by
      intro b
      rw [hf.2.1 b]
      cases ht : tracked q b
      · simp
      · simp only [Bool.true_and]
        cases hc : ids.contains b
        · have hm : b ∈ (q.items.map (·.id)).filter (fun id => !ids.contains id) := (hmem b).mpr ⟨ht, hc⟩
          have : ((q.items.map (·.id)).filter (fun id => !ids.contains id)).contains b = true := by simpa using hm
          rw [this]; rfl
        · have hm : ¬ b ∈ (q.items.map (·.id)).filter (fun id => !ids.contains id) := fun h => by
            have := ((hmem b).mp h).2; rw [hc] at this; cases this
          have : ((q.items.map (·.id)).filter (fun id => !ids.contains id)).contains b = false := by
            cases hcc : ((q.items.map (·.id)).filter (fun id => !ids.contains id)).contains b
            · rfl
            · exact absurd (by simpa using hcc) hm
          rw [this]; rfl
    refine ⟨hf.1, fun h => False.elim h, fun _ => ⟨htr, hmem, ?_, ?_⟩, ?_, hf.2.2.2.2.1, hf.2.2.2.2.2.1⟩
    · intro b
      rw [hf.2.2.1 b, hmem b]
      constructor
      · rintro ⟨h1, h2⟩
        refine ⟨h1, ?_⟩
        cases hc : ids.contains b
        · exact absurd ⟨(idx_of_inPq hw.1 b h1).1, hc⟩ h2
        · rfl
      · rintro ⟨h1, h2⟩
        exact ⟨h1, fun h => by rw [h2] at h; cases h.2⟩
    · intro b hb
      apply hf.2.2.2.1 b
      rw [hmem b]; intro h; rw [hb] at h; cases h.2
    · intro b hb
      rw [htr b] at hb
      simp only [Bool.and_eq_true] at hb
      have := hf.2.2.2.1 b (by rw [hmem b]; intro h; rw [hb.2] at h; cases h.2)
      exact (congrArg Item.untl this : _)

/-! ### all operations -/

theorem wf_newQ (d m : Int) : WF (newQ d m) := by
  have : ∀ q : Q, q.items = [] → q.pq = [] → WF q := by
    intro q h1 h2
    refine ⟨⟨?_, ?_, ?_, ?_⟩, ?_⟩
    · intro i j hi; rw [h2] at hi; simp at hi
    · rw [h1]; simp
    · intro i hi; rw [h2] at hi; simp at hi
    · intro a ht; simp [tracked, h1, find] at ht
    · intro k _ hk; rw [h2] at hk; simp at hk
  unfold newQ
  split <;> exact this _ rfl rfl

theorem wf_step (q : Q) (op : Op) (hw : WF q) : WF (step q op) := by
  cases op with
  | add o now => exact (addOrUpdate_spec q o now hw).1
  | idx o st now => exact (setIndexed_spec q o st now hw).1
  | pop => exact (pop_spec q hw).1
  | bump ids now => exact (bump_spec q ids now hw).1
  | rm ids => exact (removeMissing_spec q ids hw).1

theorem wf_run (q : Q) (ops : List Op) (hw : WF q) : WF (run q ops) := by
  induction ops generalizing q with
  | nil => exact hw
  | cons op r ih => exact ih (step q op) (wf_step q op hw)

end ZoektModel.C30
