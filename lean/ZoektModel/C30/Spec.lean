/-
C30 — the property as executable predicates over one observed operation: the state before, the
operation, its result, the state after.  The driver evaluates them on the *implementation's* states;
Props/C30.lean proves them of the model for every reachable state and operation.

Statement: the indexing queue yields each enqueued repository once per enqueue, yields repositories
whose latest options are not yet indexed before up-to-date ones and non-failed before failed ones
(first-in first-out otherwise), honours failure backoff, and after being told which repositories still
exist it tracks exactly those.
-/
import ZoektModel.C30.Model
namespace ZoektModel.C30

/-- on the heap (anchors: `heapIdx`: position in heap or -1) -/
def onHeap (x : Item) : Bool := decide (0 ≤ x.heapIdx)

/-- the order the statement prescribes, written as a lexicographic rank — not-indexed first, then
    non-failed, then first-in (smaller `seq`) -/
def rank (x : Item) : Nat × Nat × Nat := (if x.indexed then 1 else 0, if x.state == stFail then 1 else 0, x.seq)

def rankLt (a b : Nat × Nat × Nat) : Bool :=
  decide (a.1 < b.1) || (a.1 == b.1 && (decide (a.2.1 < b.2.1) || (a.2.1 == b.2.1 && decide (a.2.2 < b.2.2))))

def idsNodup : List Nat → Bool
  | [] => true
  | a :: r => !r.contains a && idsNodup r

/-- `heapIdx` bookkeeping: every heap slot holds a tracked id whose item records that slot, no id
    twice, and every tracked item that is not in the heap has `heapIdx = -1`; tracked keys are distinct -/
def consB (q : Q) : Bool :=
  idsNodup q.pq && idsNodup (q.items.map (·.id)) &&
  (List.range q.pq.length).all (fun i =>
    tracked q (q.pq.getD i 0) && (itemD q (q.pq.getD i 0)).heapIdx == (i : Int)) &&
  q.items.all (fun x => q.pq.contains x.id || x.heapIdx == -1)

/-- the heap array is heap-ordered for the prescribed rank -/
def heapB (q : Q) : Bool :=
  (List.range q.pq.length).all fun k =>
    k == 0 || !rankLt (rank (itemD q (q.pq.getD k 0))) (rank (itemD q (q.pq.getD ((k - 1) / 2) 0)))

def wfB (q : Q) : Bool := consB q && heapB q

def eqModIdx (x y : Item) : Bool := setIdx 0 x == setIdx 0 y

/-- same tracked items with the same fields (up to the heap position), except for the listed ids -/
def sameExcept (pre post : Q) (ids : List Nat) : Bool :=
  post.items.length == pre.items.length + (ids.filter fun id => !tracked pre id && tracked post id).length &&
  pre.items.all fun x => ids.contains x.id || (tracked post x.id && eqModIdx (itemD post x.id) x)

/-- `Pop` yields a minimum of the queued items, takes exactly it off the heap, and leaves the rest queued -/
def popOk (pre post : Q) (res : Option (Opts × Int)) : Bool :=
  match res with
  | none => pre.pq.isEmpty && post.pq.isEmpty
  | some (o, _) =>
    pre.items.any fun x =>
      onHeap x && x.opts == o && o.rid == x.id &&
      sameExcept pre post [x.id] && eqModIdx (itemD post x.id) { x with date := tEpoch } &&
      pre.items.all (fun y => !onHeap y || !rankLt (rank y) (rank x)) &&
      !post.pq.contains x.id && !onHeap (itemD post x.id) &&
      post.pq.length + 1 == pre.pq.length &&
      pre.pq.all (fun id => id == x.id || post.pq.contains id)

/-- backoff is honoured by an enqueueing operation at time `now`: whatever enters the heap was not on
    it and its `backoffUntil` lies strictly before `now`; nothing leaves the heap; a newly queued item gets
    a fresh, larger `seq` -/
def enqOk (pre post : Q) (now : Int) : Bool :=
  post.items.all (fun y =>
    let x := itemD pre y.id
    !onHeap y || (tracked pre y.id && onHeap x) || (decide (x.untl < now) && decide (pre.seq < y.seq))) &&
  pre.items.all (fun x => !onHeap x || onHeap (itemD post x.id))

/-- `AddOrUpdate o`: the repository is tracked with exactly these options; `indexed` is cleared iff the
    options changed; queued unless backing off -/
def addOk (pre post : Q) (o : Opts) (now : Int) : Bool :=
  let x := itemD pre o.rid
  let y := itemD post o.rid
  tracked post o.rid && y.opts == o &&
  (y.indexed == (x.indexed && x.opts == o)) &&
  (onHeap y == (onHeap x || decide (x.untl < now))) &&
  enqOk pre post now && sameExcept pre post [o.rid]

/-- `Bump ids`: reports exactly the unknown ids; queues known, unqueued ones unless backing off -/
def bumpOk (pre post : Q) (ids : List Nat) (now : Int) (missing : List Nat) : Bool :=
  missing == ids.filter (fun id => !tracked pre id) &&
  ids.all (fun id => !tracked pre id ||
    (onHeap (itemD post id) == (onHeap (itemD pre id) || decide ((itemD pre id).untl < now)))) &&
  enqOk pre post now &&
  sameExcept pre post (ids.filter fun id => tracked pre id) &&
  post.items.length == pre.items.length

/-- expected backoff after a failure: linear in the number of consecutive failures, capped -/
def backoffDur (dur maxB : Int) (cf : Nat) : Int :=
  if ((cf : Int) + 1) * dur > maxB then maxB else ((cf : Int) + 1) * dur

/-- `SetIndexed o st` -/
def idxOk (pre post : Q) (o : Opts) (st : Nat) (now : Int) : Bool :=
  let x := itemD pre o.rid
  let y := itemD post o.rid
  tracked post o.rid && y.state == st && y.opts == x.opts && y.seq == x.seq && y.date == x.date &&
  sameExcept pre post [o.rid] &&
  (if st == stFail then
     -- failed: off the queue, not to be queued again before now + backoff
     !onHeap y && !post.pq.contains o.rid && y.indexed == x.indexed &&
     y.untl == now + backoffDur pre.dur pre.maxB x.cf &&
     y.cf == (if ((x.cf : Int) + 1) * pre.dur > pre.maxB then x.cf else x.cf + 1)
   else
     -- never queues, never unqueues; up to date iff these are the latest options; backoff reset
     onHeap y == onHeap x && y.indexed == decide (o = x.opts) && y.cf == 0 && y.untl == tEpoch) &&
  pre.pq.all (fun id => id == o.rid || post.pq.contains id) &&
  post.pq.all (fun id => pre.pq.contains id)

/-- `MaybeRemoveMissing ids`: when it runs (sizes differ) the queue tracks exactly the tracked ids that
    are in `ids`, reports the others, and nothing removed stays queued -/
def rmOk (pre post : Q) (ids : List Nat) (removed : List Nat) : Bool :=
  if pre.items.length == ids.length then
    removed.isEmpty && post.items == pre.items && post.pq == pre.pq
  else
    pre.items.all (fun x => tracked post x.id == ids.contains x.id) &&
    post.items.all (fun y => tracked pre y.id && eqModIdx (itemD pre y.id) y) &&
    removed.all (fun id => tracked pre id && !ids.contains id) &&
    pre.items.all (fun x => ids.contains x.id || removed.contains x.id) &&
    idsNodup removed &&
    post.pq.all (fun id => ids.contains id && pre.pq.contains id) &&
    pre.pq.all (fun id => !ids.contains id || post.pq.contains id)

/-- what the driver evaluates for one observed operation; `none` = fine, `some key` = which clause fails -/
inductive Obs where
  | add (o : Opts) (now : Int)
  | idx (o : Opts) (st : Nat) (now : Int)
  | pop (res : Option (Opts × Int))
  | bump (ids : List Nat) (now : Int) (missing : List Nat)
  | rm (ids : List Nat) (removed : List Nat)

def checkStep (pre post : Q) : Obs → Option String
  | .add o now => if !wfB post then some "wf" else if !addOk pre post o now then some "add" else none
  | .idx o st now => if !wfB post then some "wf" else if !idxOk pre post o st now then some "idx" else none
  | .pop res =>
    if !wfB post then some "wf"
    else if !popOk pre post res then
      -- the class of DESIGN §8 / known finding C30-pop-zero-opts: an item created by SetIndexed (options never
      -- set) was queued by Bump and its zero-valued options are handed out
      match res with
      | some (o, _) => if o == Opts.zero && !(pre.items.any fun x => onHeap x && x.id == 0 && x.opts == o) then some "pop-zero-opts" else some "pop"
      | none => some "pop"
    else none
  | .bump ids now m => if !wfB post then some "wf" else if !bumpOk pre post ids now m then some "bump" else none
  | .rm ids r => if !wfB post then some "wf" else if !rmOk pre post ids r then some "rm" else none

end ZoektModel.C30
