/-
C30 — lemmas, part 1: the item store (`find`/`upd`/`modify`), the `heapIdx` bookkeeping invariant `Cons`
and its preservation by `swap`, `up`, `down`, `pqPush`, `pqPop`.
-/
import ZoektModel.C30.Spec
namespace ZoektModel.C30

/-! ### the item store -/

theorem find_some_id {l : List Item} {a : Nat} {x : Item} (h : find l a = some x) : x.id = a := by
  induction l with
  | nil => simp [find] at h
  | cons y r ih =>
    simp only [find] at h
    split at h
    · injection h with h; subst h; assumption
    · exact ih h

theorem find_some_mem {l : List Item} {a : Nat} {x : Item} (h : find l a = some x) : x ∈ l := by
  induction l with
  | nil => simp [find] at h
  | cons y r ih =>
    simp only [find] at h
    split at h
    · injection h with h; subst h; simp
    · exact List.mem_cons_of_mem _ (ih h)

theorem find_none_iff {l : List Item} {a : Nat} : find l a = none ↔ ∀ x ∈ l, x.id ≠ a := by
  induction l with
  | nil => simp [find]
  | cons y r ih =>
    simp only [find]
    by_cases h : y.id = a
    · simp [h]
    · simp [h, ih]

theorem find_upd_same {l : List Item} {a : Nat} {f : Item → Item} (hf : ∀ x, (f x).id = x.id) :
    find (upd l a f) a = (find l a).map f := by
  induction l with
  | nil => rfl
  | cons y r ih =>
    simp only [upd, List.map_cons, find]
    by_cases h : y.id = a
    · simp [h, hf]
    · simp only [h, if_false]; simpa [upd] using ih

theorem find_upd_other {l : List Item} {a b : Nat} {f : Item → Item} (hf : ∀ x, (f x).id = x.id) (h : b ≠ a) :
    find (upd l a f) b = find l b := by
  induction l with
  | nil => rfl
  | cons y r ih =>
    simp only [upd, List.map_cons, find]
    have e1 : (if y.id = a then f y else y).id = y.id := by split <;> simp [hf]
    rw [e1]
    by_cases h2 : y.id = b
    · have hna : ¬ y.id = a := by rw [h2]; exact h
      simp only [if_pos h2, if_neg hna]
    · simp only [h2, if_false]; simpa [upd] using ih

theorem upd_ids {l : List Item} {a : Nat} {f : Item → Item} (hf : ∀ x, (f x).id = x.id) :
    (upd l a f).map (·.id) = l.map (·.id) := by
  induction l with
  | nil => rfl
  | cons y r ih =>
    simp only [upd, List.map_cons] at ih ⊢
    rw [ih]
    by_cases h : y.id = a <;> simp [h, hf]

theorem itemD_modify_same (q : Q) (a : Nat) (f : Item → Item) (hf : ∀ x, (f x).id = x.id) (ht : tracked q a = true) :
    itemD (modify q a f) a = f (itemD q a) := by
  simp only [itemD, modify, find_upd_same hf]
  simp only [tracked] at ht
  cases h : find q.items a with
  | none => simp [h] at ht
  | some x => simp

theorem itemD_modify_other (q : Q) (a b : Nat) (f : Item → Item) (hf : ∀ x, (f x).id = x.id) (h : b ≠ a) :
    itemD (modify q a f) b = itemD q b := by
  simp only [itemD, modify, find_upd_other hf h]

theorem tracked_modify (q : Q) (a b : Nat) (f : Item → Item) (hf : ∀ x, (f x).id = x.id) :
    tracked (modify q a f) b = tracked q b := by
  simp only [tracked, modify]
  by_cases h : b = a
  · subst h; rw [find_upd_same hf]; cases find q.items b <;> rfl
  · rw [find_upd_other hf h]

theorem setIdx_id (k : Int) (x : Item) : (setIdx k x).id = x.id := rfl

theorem itemD_id (q : Q) (a : Nat) : (itemD q a).id = a := by
  simp only [itemD]
  cases h : find q.items a with
  | none => rfl
  | some x => exact find_some_id h

/-! ### positions in the heap array -/

def at_ (l : List Nat) (k : Nat) : Nat := l.getD k 0

theorem at_set (l : List Nat) (i k v : Nat) (hi : i < l.length) :
    at_ (l.set i v) k = if k = i then v else at_ l k := by
  simp only [at_, List.getD_eq_getElem?_getD, List.getElem?_set]
  by_cases h : i = k
  · subst h; simp [hi]
  · have : ¬ k = i := fun e => h e.symm
    simp [h, this]

def swapL (l : List Nat) (i j : Nat) : List Nat := (l.set i (at_ l j)).set j (at_ l i)

theorem swapL_length (l : List Nat) (i j : Nat) : (swapL l i j).length = l.length := by simp [swapL]

theorem at_swapL (l : List Nat) (i j k : Nat) (hi : i < l.length) (hj : j < l.length) :
    at_ (swapL l i j) k = if k = j then at_ l i else if k = i then at_ l j else at_ l k := by
  simp only [swapL]
  rw [at_set _ _ _ _ (by simpa using hj), at_set _ _ _ _ hi]

/-- no id twice in the heap array -/
def Inj (l : List Nat) : Prop := ∀ i j, i < l.length → j < l.length → at_ l i = at_ l j → i = j

def InPq (l : List Nat) (a : Nat) : Prop := ∃ k, k < l.length ∧ at_ l k = a

/-- the index permutation of a swap -/
def sw (i j k : Nat) : Nat := if k = j then i else if k = i then j else k

theorem at_swapL' (l : List Nat) (i j k : Nat) (hi : i < l.length) (hj : j < l.length) :
    at_ (swapL l i j) k = at_ l (sw i j k) := by
  rw [at_swapL l i j k hi hj]
  unfold sw
  split
  · rfl
  · split <;> rfl

theorem sw_lt (i j k n : Nat) (hi : i < n) (hj : j < n) (hk : k < n) : sw i j k < n := by
  unfold sw; split <;> (try split) <;> omega

theorem sw_inj (i j a b : Nat) (h : sw i j a = sw i j b) : a = b := by
  unfold sw at h
  split at h <;> split at h <;> (try split at h) <;> (try split at h) <;> omega

theorem inj_swapL {l : List Nat} (h : Inj l) (i j : Nat) (hi : i < l.length) (hj : j < l.length) : Inj (swapL l i j) := by
  intro a b ha hb hab
  rw [swapL_length] at ha hb
  rw [at_swapL' l i j a hi hj, at_swapL' l i j b hi hj] at hab
  exact sw_inj i j a b (h _ _ (sw_lt i j a _ hi hj ha) (sw_lt i j b _ hi hj hb) hab)

theorem sw_sw (i j k : Nat) : sw i j (sw i j k) = k := by
  unfold sw
  split <;> (try split) <;> (try split) <;> (try split) <;> omega

theorem inPq_swapL {l : List Nat} (i j a : Nat) (hi : i < l.length) (hj : j < l.length) :
    InPq (swapL l i j) a ↔ InPq l a := by
  constructor
  · rintro ⟨k, hk, e⟩
    rw [swapL_length] at hk
    rw [at_swapL' l i j k hi hj] at e
    exact ⟨sw i j k, sw_lt i j k _ hi hj hk, e⟩
  · rintro ⟨k, hk, e⟩
    refine ⟨sw i j k, by rw [swapL_length]; exact sw_lt i j k _ hi hj hk, ?_⟩
    rw [at_swapL' l i j _ hi hj, sw_sw]; exact e

/-! ### the bookkeeping invariant -/

/-- `heapIdx` is consistent: slot `i` of the heap holds a tracked id whose item says `heapIdx = i`; no id twice;
    a tracked item that is not in the heap says `-1`; map keys are distinct -/
structure Cons (q : Q) : Prop where
  inj : Inj q.pq
  keys : (q.items.map (·.id)).Nodup
  slot : ∀ i, i < q.pq.length → tracked q (at_ q.pq i) = true ∧ (itemD q (at_ q.pq i)).heapIdx = (i : Int)
  off : ∀ a, tracked q a = true → ¬ InPq q.pq a → (itemD q a).heapIdx = -1

theorem swap_pq (q : Q) (i j : Nat) : (swap q i j).pq = swapL q.pq i j := by
  simp [swap, modify, swapL, at_]

theorem swap_length (q : Q) (i j : Nat) : (swap q i j).pq.length = q.pq.length := by
  rw [swap_pq, swapL_length]

theorem tracked_swap (q : Q) (i j a : Nat) : tracked (swap q i j) a = tracked q a := by
  simp only [swap]
  rw [tracked_modify _ _ _ _ (setIdx_id _), tracked_modify _ _ _ _ (setIdx_id _)]
  rfl

/-- the item of `a` after `Swap(i, j)`: only `heapIdx` of the two swapped items changes -/
theorem itemD_swap (q : Q) (i j a : Nat) (hc : Cons q) (hi : i < q.pq.length) (hj : j < q.pq.length) :
    itemD (swap q i j) a =
      if a = at_ q.pq i then setIdx j (itemD q a) else if a = at_ q.pq j then setIdx i (itemD q a) else itemD q a := by
  have ti := (hc.slot i hi).1
  have tj := (hc.slot j hj).1
  let q1 : Q := { q with pq := (q.pq.set i (q.pq.getD j 0)).set j (q.pq.getD i 0) }
  have tj1 : tracked q1 (at_ q.pq j) = true := tj
  have ti1 : tracked (modify q1 (at_ q.pq j) (setIdx i)) (at_ q.pq i) = true := by
    rw [tracked_modify _ _ _ _ (setIdx_id _)]; exact ti
  have e1 : ∀ b, itemD q1 b = itemD q b := fun _ => rfl
  show itemD (modify (modify q1 (at_ q.pq j) (setIdx i)) (at_ q.pq i) (setIdx j)) a = _
  by_cases h1 : a = at_ q.pq i
  · subst h1
    rw [if_pos rfl, itemD_modify_same _ _ _ (setIdx_id _) ti1]
    by_cases h2 : at_ q.pq i = at_ q.pq j
    · rw [h2, itemD_modify_same _ _ _ (setIdx_id _) tj1, e1]
      rfl
    · rw [itemD_modify_other _ _ _ _ (setIdx_id _) h2, e1]
  · rw [if_neg h1, itemD_modify_other _ _ _ _ (setIdx_id _) h1]
    by_cases h2 : a = at_ q.pq j
    · subst h2
      rw [if_pos rfl, itemD_modify_same _ _ _ (setIdx_id _) tj1, e1]
    · rw [if_neg h2, itemD_modify_other _ _ _ _ (setIdx_id _) h2, e1]

theorem cons_swap {q : Q} (hc : Cons q) (i j : Nat) (hi : i < q.pq.length) (hj : j < q.pq.length) : Cons (swap q i j) := by
  refine ⟨?_, ?_, ?_, ?_⟩
  · rw [swap_pq]; exact inj_swapL hc.inj i j hi hj
  · simp only [swap, modify]
    rw [upd_ids (setIdx_id _), upd_ids (setIdx_id _)]
    exact hc.keys
  · intro k hk
    rw [swap_length] at hk
    rw [tracked_swap, swap_pq, at_swapL _ _ _ _ hi hj, itemD_swap q i j _ hc hi hj]
    by_cases k1 : k = j
    · subst k1
      simp only [if_true]
      refine ⟨(hc.slot i hi).1, ?_⟩
      simp [setIdx]
    · simp only [k1, if_false]
      by_cases k2 : k = i
      · subst k2
        simp only [if_true]
        refine ⟨(hc.slot j hj).1, ?_⟩
        have : at_ q.pq j ≠ at_ q.pq k := fun e => k1 (hc.inj _ _ hj hk e).symm
        simp [this, setIdx]
      · simp only [k2, if_false]
        have n1 : at_ q.pq k ≠ at_ q.pq i := fun e => k2 (hc.inj _ _ hk hi e)
        have n2 : at_ q.pq k ≠ at_ q.pq j := fun e => k1 (hc.inj _ _ hk hj e)
        simp only [n1, n2, if_false]
        exact hc.slot k hk
  · intro a ht hn
    rw [tracked_swap] at ht
    rw [swap_pq, inPq_swapL _ _ _ hi hj] at hn
    rw [itemD_swap q i j a hc hi hj]
    have n1 : a ≠ at_ q.pq i := fun e => hn ⟨i, hi, e.symm⟩
    have n2 : a ≠ at_ q.pq j := fun e => hn ⟨j, hj, e.symm⟩
    simp only [n1, n2, if_false]
    exact hc.off a ht hn

/-! ### same queue up to the heap layout -/

/-- `q'` differs from `q` at most in the order of the heap array and the items' `heapIdx` -/
structure Same (q q' : Q) : Prop where
  tr : ∀ a, tracked q' a = tracked q a
  it : ∀ a, setIdx 0 (itemD q' a) = setIdx 0 (itemD q a)
  keys : q'.items.map (·.id) = q.items.map (·.id)
  seq : q'.seq = q.seq
  dur : q'.dur = q.dur
  maxB : q'.maxB = q.maxB

theorem Same.refl (q : Q) : Same q q := ⟨fun _ => rfl, fun _ => rfl, rfl, rfl, rfl, rfl⟩

theorem Same.trans {a b c : Q} (h1 : Same a b) (h2 : Same b c) : Same a c :=
  ⟨fun x => (h2.tr x).trans (h1.tr x), fun x => (h2.it x).trans (h1.it x), h2.keys.trans h1.keys,
   h2.seq.trans h1.seq, h2.dur.trans h1.dur, h2.maxB.trans h1.maxB⟩

theorem lessPrio_setIdx (k m : Int) (x y : Item) : lessPrio (setIdx k x) (setIdx m y) = lessPrio x y := rfl

theorem lessPrio_congr {x x' y y' : Item} (hx : setIdx 0 x' = setIdx 0 x) (hy : setIdx 0 y' = setIdx 0 y) :
    lessPrio x' y' = lessPrio x y := by
  rw [← lessPrio_setIdx 0 0 x' y', ← lessPrio_setIdx 0 0 x y, hx, hy]

theorem Same.lessId {q q' : Q} (h : Same q q') (a b : Nat) : lessId q' a b = lessId q a b :=
  lessPrio_congr (h.it a) (h.it b)

theorem same_swap {q : Q} (hc : Cons q) (i j : Nat) (hi : i < q.pq.length) (hj : j < q.pq.length) : Same q (swap q i j) := by
  refine ⟨tracked_swap q i j, ?_, ?_, rfl, rfl, rfl⟩
  · intro a
    rw [itemD_swap q i j a hc hi hj]
    split
    · rfl
    · split <;> rfl
  · simp only [swap, modify]
    rw [upd_ids (setIdx_id _), upd_ids (setIdx_id _)]

/-! ### `up` and `down` as pure functions of the heap array -/

def upL (lt : Nat → Nat → Bool) (l : List Nat) (j : Nat) : List Nat :=
  if h : j = 0 then l
  else
    let i := (j - 1) / 2
    if lt (at_ l j) (at_ l i) then upL lt (swapL l i j) i else l
termination_by j
decreasing_by omega

/-- the child `down` compares with: the smaller of the two (the left one on ties) -/
def childL (lt : Nat → Nat → Bool) (l : List Nat) (i n : Nat) : Nat :=
  if 2 * i + 1 + 1 < n && lt (at_ l (2 * i + 1 + 1)) (at_ l (2 * i + 1)) then 2 * i + 1 + 1 else 2 * i + 1

def downL (lt : Nat → Nat → Bool) (l : List Nat) (i n : Nat) : List Nat × Nat :=
  if h : 2 * i + 1 ≥ n then (l, i)
  else
    if lt (at_ l (childL lt l i n)) (at_ l i) then downL lt (swapL l i (childL lt l i n)) (childL lt l i n) n else (l, i)
termination_by n - i
decreasing_by (unfold childL; split <;> omega)

theorem childL_bounds (lt : Nat → Nat → Bool) (l : List Nat) (i n : Nat) (h : ¬ 2 * i + 1 ≥ n) :
    childL lt l i n < n ∧ i < childL lt l i n ∧ (childL lt l i n = 2 * i + 1 ∨ childL lt l i n = 2 * i + 2) := by
  unfold childL
  split
  · rename_i h'; simp at h'; omega
  · omega

theorem less_eq (q : Q) (i j : Nat) : less q i j = lessId q (at_ q.pq i) (at_ q.pq j) := rfl

theorem up_spec (q : Q) (j : Nat) (hc : Cons q) (hj : j < q.pq.length) :
    Cons (up q j) ∧ Same q (up q j) ∧ (up q j).pq = upL (lessId q) q.pq j := by
  induction j using Nat.strongRecOn generalizing q with
  | _ j ih =>
    rw [up, upL]
    by_cases h0 : j = 0
    · simp only [h0, dif_pos]; exact ⟨hc, Same.refl q, trivial⟩
    · simp only [h0, dif_neg, not_false_eq_true]
      rw [less_eq]
      by_cases hl : lessId q (at_ q.pq j) (at_ q.pq ((j - 1) / 2)) = true
      · simp only [hl, if_true]
        have hi : (j - 1) / 2 < q.pq.length := by omega
        have hc' := cons_swap hc ((j - 1) / 2) j hi hj
        have hs' := same_swap hc ((j - 1) / 2) j hi hj
        have := ih ((j - 1) / 2) (by omega) (swap q ((j - 1) / 2) j) hc' (by rw [swap_length]; exact hi)
        refine ⟨this.1, hs'.trans this.2.1, ?_⟩
        rw [this.2.2, swap_pq]
        congr 1
        funext a b
        exact hs'.lessId a b
      · have hl' : lessId q (at_ q.pq j) (at_ q.pq ((j - 1) / 2)) = false := by simpa using hl
        rw [hl']; exact ⟨hc, Same.refl q, rfl⟩

theorem down_unfold (q : Q) (i n : Nat) :
    down q i n = if 2 * i + 1 ≥ n then (q, i)
      else if less q (childL (lessId q) q.pq i n) i then down (swap q i (childL (lessId q) q.pq i n)) (childL (lessId q) q.pq i n) n
      else (q, i) := by
  rw [down]
  by_cases h0 : 2 * i + 1 ≥ n
  · simp only [h0, dif_pos, if_true]
  · simp only [h0, dif_neg, not_false_eq_true, if_false]
    rfl

theorem down_spec (q : Q) (i n : Nat) (hc : Cons q) (hn : n ≤ q.pq.length) (hi : i < q.pq.length) :
    Cons (down q i n).1 ∧ Same q (down q i n).1 ∧ (down q i n).1.pq = (downL (lessId q) q.pq i n).1 ∧
      (down q i n).2 = (downL (lessId q) q.pq i n).2 := by
  induction hk : n - i using Nat.strongRecOn generalizing q i with
  | _ k ih =>
    rw [down_unfold, downL]
    by_cases h0 : 2 * i + 1 ≥ n
    · simp only [h0, dif_pos, if_true]; exact ⟨hc, Same.refl q, trivial, trivial⟩
    · simp only [h0, dif_neg, not_false_eq_true, if_false]
      have hb := childL_bounds (lessId q) q.pq i n h0
      generalize childL (lessId q) q.pq i n = j at hb ⊢
      rw [less_eq]
      by_cases hl : lessId q (at_ q.pq j) (at_ q.pq i) = true
      · simp only [hl, if_true]
        have hj : j < q.pq.length := by omega
        have hc' := cons_swap hc i j hi hj
        have hs' := same_swap hc i j hi hj
        have := ih (n - j) (by omega) (swap q i j) j hc' (by rw [swap_length]; exact hn) (by rw [swap_length]; exact hj) rfl
        have e : lessId (swap q i j) = lessId q := by funext a b; exact hs'.lessId a b
        rw [e, swap_pq] at this
        exact ⟨this.1, hs'.trans this.2.1, this.2.2.1, this.2.2.2⟩
      · have hl' : lessId q (at_ q.pq j) (at_ q.pq i) = false := by simpa using hl
        rw [hl']; exact ⟨hc, Same.refl q, rfl, rfl⟩

end ZoektModel.C30
