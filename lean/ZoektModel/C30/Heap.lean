/-
C30 — lemmas, part 2: correctness of `container/heap`'s `up` and `down` as functions of the heap array, for any
strict weak order on the ids: they restore the heap property; the root of a heap is a minimum; `Fix`'s
"down, and if it did not move, up" restores the heap when one position changed arbitrarily.
-/
import ZoektModel.C30.Lemmas
namespace ZoektModel.C30

structure SWO (lt : Nat → Nat → Bool) : Prop where
  irrefl : ∀ a, lt a a = false
  trans : ∀ a b c, lt a b = true → lt b c = true → lt a c = true
  ntrans : ∀ a b c, lt a b = false → lt b c = false → lt a c = false

theorem SWO.asymm {lt : Nat → Nat → Bool} (h : SWO lt) (a b : Nat) (hab : lt a b = true) : lt b a = false := by
  cases hba : lt b a
  · rfl
  · have := h.trans a b a hab hba
    rw [h.irrefl] at this
    cases this

/-- heap property on the first `n` slots: no slot is less than its parent -/
def HeapN (lt : Nat → Nat → Bool) (l : List Nat) (n : Nat) : Prop :=
  ∀ k, 0 < k → k < n → lt (at_ l k) (at_ l ((k - 1) / 2)) = false

/-- heap except possibly between `j` and its parent; `j`'s children are not below `j`'s parent -/
def UpInv (lt : Nat → Nat → Bool) (l : List Nat) (j n : Nat) : Prop :=
  (∀ k, 0 < k → k < n → k ≠ j → lt (at_ l k) (at_ l ((k - 1) / 2)) = false) ∧
  (0 < j → ∀ c, 0 < c → c < n → (c - 1) / 2 = j → lt (at_ l c) (at_ l ((j - 1) / 2)) = false)

/-- heap except possibly between `i` and its children; `i`'s children are not below `i`'s parent -/
def DownInv (lt : Nat → Nat → Bool) (l : List Nat) (i n : Nat) : Prop :=
  (∀ k, 0 < k → k < n → (k - 1) / 2 ≠ i → lt (at_ l k) (at_ l ((k - 1) / 2)) = false) ∧
  (0 < i → ∀ c, 0 < c → c < n → (c - 1) / 2 = i → lt (at_ l c) (at_ l ((i - 1) / 2)) = false)

theorem at_swapL_i (l : List Nat) (i j : Nat) (hi : i < l.length) (hj : j < l.length) : at_ (swapL l i j) i = at_ l j := by
  rw [at_swapL l i j i hi hj]; split
  · rename_i h; rw [h]
  · simp

theorem at_swapL_j (l : List Nat) (i j : Nat) (hi : i < l.length) (hj : j < l.length) : at_ (swapL l i j) j = at_ l i := by
  rw [at_swapL l i j j hi hj]; simp

theorem at_swapL_other (l : List Nat) (i j k : Nat) (hi : i < l.length) (hj : j < l.length) (h1 : k ≠ i) (h2 : k ≠ j) :
    at_ (swapL l i j) k = at_ l k := by
  rw [at_swapL l i j k hi hj]; simp [h1, h2]

theorem upL_length (lt : Nat → Nat → Bool) (l : List Nat) (j : Nat) : (upL lt l j).length = l.length := by
  induction j using Nat.strongRecOn generalizing l with
  | _ j ih =>
    rw [upL]
    split
    · rfl
    · simp only []
      split
      · rw [ih _ (by omega), swapL_length]
      · rfl

theorem upL_heap {lt : Nat → Nat → Bool} (h : SWO lt) (l : List Nat) (j n : Nat) (hn : n ≤ l.length) (hj : j < n)
    (hu : UpInv lt l j n) : HeapN lt (upL lt l j) n := by
  induction j using Nat.strongRecOn generalizing l with
  | _ j ih =>
    rw [upL]
    by_cases h0 : j = 0
    · simp only [h0, dif_pos]
      intro k hk0 hkn
      exact hu.1 k hk0 hkn (by omega)
    · simp only [h0, dif_neg, not_false_eq_true]
      have hj0 : 0 < j := by omega
      by_cases hl : lt (at_ l j) (at_ l ((j - 1) / 2)) = true
      · simp only [hl, if_true]
        have hi : (j - 1) / 2 < l.length := by omega
        have hjl : j < l.length := by omega
        apply ih ((j - 1) / 2) (by omega) (swapL l ((j - 1) / 2) j) (by rw [swapL_length]; exact hn) (by omega)
        generalize hidef : (j - 1) / 2 = i at *
        have hij : i < j := by omega
        refine ⟨?_, ?_⟩
        · intro k hk0 hkn hki
          by_cases hkj : k = j
          · subst hkj
            rw [hidef, at_swapL_j l i k hi hjl, at_swapL_i l i k hi hjl]
            exact h.asymm _ _ hl
          · rw [at_swapL_other l i j k hi hjl hki hkj]
            by_cases hp1 : (k - 1) / 2 = i
            · -- sibling of j
              rw [hp1, at_swapL_i l i j hi hjl]
              have e := hu.1 k hk0 hkn hkj
              rw [hp1] at e
              cases hc : lt (at_ l k) (at_ l j)
              · rfl
              · have := h.trans _ _ _ hc hl; rw [e] at this; cases this
            · by_cases hp2 : (k - 1) / 2 = j
              · -- child of j
                rw [hp2, at_swapL_j l i j hi hjl]
                have := hu.2 hj0 k hk0 hkn hp2
                rw [hidef] at this
                exact this
              · rw [at_swapL_other l i j _ hi hjl hp1 hp2]
                exact hu.1 k hk0 hkn hkj
        · intro hi0 c hc0 hcn hpc
          have hpi : (i - 1) / 2 ≠ i := by omega
          have hpj : (i - 1) / 2 ≠ j := by omega
          rw [at_swapL_other l i j _ hi hjl hpi hpj]
          have ei := hu.1 i hi0 (by omega) (by omega)
          by_cases hcj : c = j
          · subst hcj
            rw [at_swapL_j l i c hi hjl]
            exact ei
          · have hci : c ≠ i := by omega
            rw [at_swapL_other l i j c hi hjl hci hcj]
            have ec := hu.1 c hc0 hcn hcj
            rw [hpc] at ec
            exact h.ntrans _ _ _ ec ei
      · have hl' : lt (at_ l j) (at_ l ((j - 1) / 2)) = false := by simpa using hl
        rw [hl']
        show HeapN lt l n
        intro k hk0 hkn
        by_cases hkj : k = j
        · subst hkj; exact hl'
        · exact hu.1 k hk0 hkn hkj

theorem childL_spec (lt : Nat → Nat → Bool) (l : List Nat) (i n : Nat) :
    (childL lt l i n = 2 * i + 2 ∧ 2 * i + 2 < n ∧ lt (at_ l (2 * i + 2)) (at_ l (2 * i + 1)) = true) ∨
    (childL lt l i n = 2 * i + 1 ∧ (2 * i + 2 < n → lt (at_ l (2 * i + 2)) (at_ l (2 * i + 1)) = false)) := by
  unfold childL
  split
  · rename_i hc
    simp only [Bool.and_eq_true, decide_eq_true_eq] at hc
    exact Or.inl ⟨rfl, hc.1, hc.2⟩
  · rename_i hc
    refine Or.inr ⟨rfl, fun hlt => ?_⟩
    cases hv : lt (at_ l (2 * i + 2)) (at_ l (2 * i + 1))
    · rfl
    · exact absurd (by simp [hlt, hv] : (decide (2 * i + 1 + 1 < n) && lt (at_ l (2 * i + 1 + 1)) (at_ l (2 * i + 1))) = true) hc

/-- the child chosen by `down` is not above its sibling -/
theorem child_le_sibling {lt : Nat → Nat → Bool} (h : SWO lt) (l : List Nat) (i n s : Nat) (hs0 : 0 < s) (hsn : s < n)
    (hps : (s - 1) / 2 = i) (hne : s ≠ childL lt l i n) : lt (at_ l s) (at_ l (childL lt l i n)) = false := by
  have hs : s = 2 * i + 1 ∨ s = 2 * i + 2 := by omega
  rcases childL_spec lt l i n with ⟨e, _, hv⟩ | ⟨e, hv⟩
  · rw [e] at hne ⊢
    have : s = 2 * i + 1 := by omega
    rw [this]; exact h.asymm _ _ hv
  · rw [e] at hne ⊢
    have : s = 2 * i + 2 := by omega
    rw [this]; exact hv (by omega)

theorem downL_length (lt : Nat → Nat → Bool) (l : List Nat) (i n : Nat) : (downL lt l i n).1.length = l.length := by
  induction hk : n - i using Nat.strongRecOn generalizing l i with
  | _ k ih =>
    rw [downL]
    split
    · rfl
    · rename_i h0
      have hb := childL_bounds lt l i n h0
      split
      · rw [ih (n - childL lt l i n) (by omega) _ _ rfl, swapL_length]
      · rfl

theorem downL_pos_ge (lt : Nat → Nat → Bool) (l : List Nat) (i n : Nat) : i ≤ (downL lt l i n).2 := by
  induction hk : n - i using Nat.strongRecOn generalizing l i with
  | _ k ih =>
    rw [downL]
    split
    · exact Nat.le_refl _
    · rename_i h0
      have hb := childL_bounds lt l i n h0
      split
      · have := ih (n - childL lt l i n) (by omega) (swapL l i (childL lt l i n)) (childL lt l i n) rfl
        omega
      · exact Nat.le_refl _

theorem downL_heap {lt : Nat → Nat → Bool} (h : SWO lt) (l : List Nat) (i n : Nat) (hn : n ≤ l.length) (hi : i < n)
    (hd : DownInv lt l i n) : HeapN lt (downL lt l i n).1 n := by
  induction hk : n - i using Nat.strongRecOn generalizing l i with
  | _ k ih =>
    rw [downL]
    by_cases h0 : 2 * i + 1 ≥ n
    · simp only [h0, dif_pos]
      intro k hk0 hkn
      exact hd.1 k hk0 hkn (by omega)
    · simp only [h0, dif_neg, not_false_eq_true]
      have hb := childL_bounds lt l i n h0
      have hsib := child_le_sibling h l i n
      generalize childL lt l i n = j at hb hsib ⊢
      have hil : i < l.length := by omega
      have hjl : j < l.length := by omega
      by_cases hl : lt (at_ l j) (at_ l i) = true
      · simp only [hl, if_true]
        apply ih (n - j) (by omega) (swapL l i j) j (by rw [swapL_length]; exact hn) (by omega) _ rfl
        refine ⟨?_, ?_⟩
        · intro k hk0 hkn hpk
          by_cases hkj : k = j
          · subst hkj
            have : (k - 1) / 2 = i := by omega
            rw [this, at_swapL_j l i k hil hjl, at_swapL_i l i k hil hjl]
            exact h.asymm _ _ hl
          · by_cases hki : k = i
            · subst hki
              have hpi : (k - 1) / 2 ≠ k := by omega
              have hpj : (k - 1) / 2 ≠ j := by omega
              rw [at_swapL_i l k j hil hjl, at_swapL_other l k j _ hil hjl hpi hpj]
              exact hd.2 hk0 j (by omega) (by omega) (by omega)
            · rw [at_swapL_other l i j k hil hjl hki hkj]
              by_cases hp1 : (k - 1) / 2 = i
              · rw [hp1, at_swapL_i l i j hil hjl]
                exact hsib k hk0 hkn hp1 hkj
              · rw [at_swapL_other l i j _ hil hjl hp1 hpk]
                exact hd.1 k hk0 hkn hp1
        · intro hj0 c hc0 hcn hpc
          have hpj : (j - 1) / 2 = i := by omega
          have hci : c ≠ i := by omega
          have hcj : c ≠ j := by omega
          rw [hpj, at_swapL_i l i j hil hjl, at_swapL_other l i j c hil hjl hci hcj]
          have := hd.1 c hc0 hcn (by omega)
          rw [hpc] at this
          exact this
      · have hl' : lt (at_ l j) (at_ l i) = false := by simpa using hl
        rw [hl']
        show HeapN lt l n
        intro k hk0 hkn
        by_cases hp : (k - 1) / 2 = i
        · rw [hp]
          by_cases hkj : k = j
          · subst hkj; exact hl'
          · exact h.ntrans _ _ _ (hsib k hk0 hkn hp hkj) hl'
        · exact hd.1 k hk0 hkn hp

/-- the root of a heap is a minimum -/
theorem heap_root_min {lt : Nat → Nat → Bool} (h : SWO lt) (l : List Nat) (n : Nat) (hh : HeapN lt l n) (k : Nat) (hk : k < n) :
    lt (at_ l k) (at_ l 0) = false := by
  induction k using Nat.strongRecOn with
  | _ k ih =>
    by_cases h0 : k = 0
    · subst h0; exact h.irrefl _
    · exact h.ntrans _ _ _ (hh k (by omega) hk) (ih ((k - 1) / 2) (by omega) (by omega))

/-- heap except at position `i` (whose priority changed arbitrarily, or which received another element), with the
    old bounds still relating `i`'s parent and `i`'s children -/
def FixInv (lt : Nat → Nat → Bool) (l : List Nat) (i n : Nat) : Prop :=
  (∀ k, 0 < k → k < n → k ≠ i → (k - 1) / 2 ≠ i → lt (at_ l k) (at_ l ((k - 1) / 2)) = false) ∧
  (0 < i → ∀ c, 0 < c → c < n → (c - 1) / 2 = i → lt (at_ l c) (at_ l ((i - 1) / 2)) = false)

/-- `heap.Fix` / the tail of `heap.Remove`: `if !down(i, n) { up(i) }` -/
def fixL (lt : Nat → Nat → Bool) (l : List Nat) (i n : Nat) : List Nat :=
  if (downL lt l i n).2 > i then (downL lt l i n).1 else upL lt (downL lt l i n).1 i

theorem fixL_heap {lt : Nat → Nat → Bool} (h : SWO lt) (l : List Nat) (i n : Nat) (hn : n ≤ l.length) (hi : i < n)
    (hf : FixInv lt l i n) : HeapN lt (fixL lt l i n) n := by
  unfold fixL
  by_cases h0 : 2 * i + 1 ≥ n
  · -- no children: down does nothing
    have e : downL lt l i n = (l, i) := by rw [downL]; simp only [h0, dif_pos]
    rw [e]
    simp only [gt_iff_lt, Nat.lt_irrefl, if_false]
    apply upL_heap h l i n hn hi
    exact ⟨fun k hk0 hkn hki => hf.1 k hk0 hkn hki (by omega), fun hi0 c hc0 hcn hpc => hf.2 hi0 c hc0 hcn hpc⟩
  · have hb := childL_bounds lt l i n h0
    have hsib := child_le_sibling h l i n
    by_cases hl : lt (at_ l (childL lt l i n)) (at_ l i) = true
    · -- down moves: the edge to the parent was fine, so the standard `down` lemma applies
      have hge : (downL lt l i n).2 > i := by
        rw [downL]; simp only [h0, dif_neg, not_false_eq_true, hl, if_true]
        have := downL_pos_ge lt (swapL l i (childL lt l i n)) (childL lt l i n) n
        omega
      rw [if_pos hge]
      apply downL_heap h l i n hn hi
      refine ⟨?_, hf.2⟩
      intro k hk0 hkn hp
      by_cases hki : k = i
      · subst hki
        cases hc : lt (at_ l k) (at_ l ((k - 1) / 2))
        · rfl
        · have := h.trans _ _ _ hl hc
          rw [hf.2 hk0 (childL lt l k n) (by omega) (by omega) (by omega)] at this
          cases this
      · exact hf.1 k hk0 hkn hki hp
    · have hl' : lt (at_ l (childL lt l i n)) (at_ l i) = false := by simpa using hl
      have e : downL lt l i n = (l, i) := by rw [downL]; simp only [h0, dif_neg, not_false_eq_true, hl']; rfl
      rw [e]
      simp only [gt_iff_lt, Nat.lt_irrefl, if_false]
      apply upL_heap h l i n hn hi
      refine ⟨?_, hf.2⟩
      intro k hk0 hkn hki
      by_cases hp : (k - 1) / 2 = i
      · rw [hp]
        by_cases hkj : k = childL lt l i n
        · rw [hkj]; exact hl'
        · exact h.ntrans _ _ _ (hsib k hk0 hkn hp hkj) hl'
      · exact hf.1 k hk0 hkn hki hp

theorem fixL_length (lt : Nat → Nat → Bool) (l : List Nat) (i n : Nat) : (fixL lt l i n).length = l.length := by
  unfold fixL
  split
  · exact downL_length lt l i n
  · rw [upL_length, downL_length]

end ZoektModel.C30
