/-
C30 — model of cmd/zoekt-sourcegraph-indexserver/queue.go and backoff.go, including the parts of
container/heap the queue drives (Push, Pop, Remove, Fix, up, down).

Representation.  Go's `items map[uint32]*queueItem` and `pq []*queueItem` share pointers; here the
items live in one list keyed by `id` (`repoID`) and the heap array holds ids.  That identification is
sound as long as every pointer in `pq` is the pointer stored in `items` under its `repoID`; the Go
driver reports `ptr=dangling` otherwise and the invariant `Cons` (Props/C30.lean) proves it for the model.
`heapIdx` is stored in the item and maintained by `swap`/`pqPush`/`pqPop` exactly as the Go methods do;
it is never derived from the position.

Time is an input (`now`, nanoseconds relative to the start of the run).  `IndexOptions` is an opaque
value `(rid, var)` compared with `=` (Go: `reflect.DeepEqual`); its zero value is `(0,0)`.

`MaybeRemoveMissing` follows the code after the `fix:` commit (keyed by `item.repoID`);
`removeMissingAsWritten` is the pre-fix text (keyed by `item.opts.RepoID`) kept for the witness theorem.
-/
namespace ZoektModel.C30

structure Opts where
  rid : Nat
  var : Nat
  deriving DecidableEq, Repr

def Opts.zero : Opts := ⟨0, 0⟩

/-- the zero `time.Time` -/
def tZero : Int := -(2 ^ 62)
/-- `time.Unix(0, 0)` -/
def tEpoch : Int := -(2 ^ 61)

/-- `indexState`: 0 = "", 1 = fail, 2 = success, 3 = success_meta, 4 = noop, 5 = empty -/
def stFail : Nat := 1

structure Item where
  id : Nat
  opts : Opts
  indexed : Bool
  state : Nat
  heapIdx : Int
  seq : Nat
  date : Int
  cf : Nat        -- backoff.consecutiveFailures
  untl : Int      -- backoff.backoffUntil
  deriving DecidableEq, Repr

structure Q where
  items : List Item
  pq : List Nat
  seq : Nat
  dur : Int       -- backoffDuration
  maxB : Int      -- maxBackoff
  deriving Repr

/-- `NewQueue` -/
def newQ (d m : Int) : Q :=
  if d < 0 ∨ m < 0 then ⟨[], [], 0, 0, 0⟩ else ⟨[], [], 0, d, m⟩

/-- `newQueueItem` -/
def newItem (id : Nat) : Item := ⟨id, Opts.zero, false, 0, -1, 0, tZero, 0, tZero⟩

def find (l : List Item) (id : Nat) : Option Item :=
  match l with
  | [] => none
  | x :: r => if x.id = id then some x else find r id

def itemD (q : Q) (id : Nat) : Item := (find q.items id).getD (newItem id)

def tracked (q : Q) (id : Nat) : Bool := (find q.items id).isSome

def upd (l : List Item) (id : Nat) (f : Item → Item) : List Item :=
  l.map fun x => if x.id = id then f x else x

def modify (q : Q) (id : Nat) (f : Item → Item) : Q := { q with items := upd q.items id f }

/-- `lessQueueItemPriority` -/
def lessPrio (x y : Item) : Bool :=
  if x.indexed != y.indexed then !x.indexed
  else if (x.state == stFail) != (y.state == stFail) then !(x.state == stFail)
  else decide (x.seq < y.seq)

def lessId (q : Q) (a b : Nat) : Bool := lessPrio (itemD q a) (itemD q b)

/-- `pqueue.Less` -/
def less (q : Q) (i j : Nat) : Bool := lessId q (q.pq.getD i 0) (q.pq.getD j 0)

def setIdx (k : Int) (x : Item) : Item := { x with heapIdx := k }

/-- `pqueue.Swap` -/
def swap (q : Q) (i j : Nat) : Q :=
  let a := q.pq.getD i 0
  let b := q.pq.getD j 0
  let q1 : Q := { q with pq := (q.pq.set i b).set j a }
  modify (modify q1 b (setIdx i)) a (setIdx j)

/-- `heap.up` -/
def up (q : Q) (j : Nat) : Q :=
  if h : j = 0 then q
  else
    let i := (j - 1) / 2
    if less q j i then up (swap q i j) i else q
termination_by j
decreasing_by omega

/-- `heap.down`; returns the final position (Go returns `i > i0`) -/
def down (q : Q) (i n : Nat) : Q × Nat :=
  let j1 := 2 * i + 1
  if h : j1 ≥ n then (q, i)
  else
    let j := if j1 + 1 < n && less q (j1 + 1) j1 then j1 + 1 else j1
    if less q j i then down (swap q i j) j n else (q, i)
termination_by n - i
decreasing_by all_goals (simp only [j1] at *; split <;> omega)

/-- `pqueue.Push` -/
def pqPush (q : Q) (id : Nat) : Q :=
  let q1 := modify q id (setIdx q.pq.length)
  { q1 with pq := q1.pq ++ [id] }

/-- `pqueue.Pop`: last element, `heapIdx = -1` -/
def pqPop (q : Q) : Q × Nat :=
  let id := q.pq.getD (q.pq.length - 1) 0
  let q1 := modify q id (setIdx (-1))
  ({ q1 with pq := q1.pq.take (q.pq.length - 1) }, id)

/-- `heap.Push` -/
def hpush (q : Q) (id : Nat) : Q :=
  let q1 := pqPush q id
  up q1 (q1.pq.length - 1)

/-- `heap.Pop` (callers check `len > 0`) -/
def hpop (q : Q) : Q × Nat :=
  let n := q.pq.length - 1
  let q1 := swap q 0 n
  pqPop (down q1 0 n).1

/-- `heap.Fix` -/
def hfix (q : Q) (i : Nat) : Q :=
  let r := down q i q.pq.length
  if r.2 > i then r.1 else up r.1 i

/-- `heap.Remove` -/
def hremove (q : Q) (i : Nat) : Q × Nat :=
  let n := q.pq.length - 1
  if n ≠ i then
    let q1 := swap q i n
    let r := down q1 i n
    pqPop (if r.2 > i then r.1 else up r.1 i)
  else pqPop q

/-- `getOrAdd` -/
def getOrAdd (q : Q) (id : Nat) : Q :=
  if tracked q id then q else { q with items := q.items ++ [newItem id] }

/-- `backoff.Allow` -/
def allow (x : Item) (now : Int) : Bool := decide (x.untl < now)

/-- the shared tail of `AddOrUpdate` and `Bump`: push an off-heap item if its backoff allows -/
def enqueue (q : Q) (id : Nat) (now : Int) : Q :=
  if allow (itemD q id) now then
    let q1 : Q := { q with seq := q.seq + 1 }
    let q2 := modify q1 id fun x => { x with seq := q1.seq, date := now }
    hpush q2 id
  else q

/-- `Queue.AddOrUpdate` -/
def addOrUpdate (q : Q) (o : Opts) (now : Int) : Q :=
  let q1 := getOrAdd q o.rid
  let q2 := if (itemD q1 o.rid).opts ≠ o then modify q1 o.rid fun x => { x with indexed := false, opts := o } else q1
  let it := itemD q2 o.rid
  if it.heapIdx < 0 then enqueue q2 o.rid now
  else hfix q2 it.heapIdx.toNat

/-- `Queue.Pop`: `none` when empty, else the popped item's `opts` and `dateAddedToQueue` -/
def pop (q : Q) : Q × Option (Opts × Int) :=
  if q.pq.isEmpty then (q, none)
  else
    let r := hpop q
    let it := itemD r.1 r.2
    (modify r.1 r.2 fun x => { x with date := tEpoch }, some (it.opts, it.date))

/-- `Queue.Bump`; returns the ids unknown to the queue -/
def bump (q : Q) (ids : List Nat) (now : Int) : Q × List Nat :=
  ids.foldl (fun (acc : Q × List Nat) id =>
    if !tracked acc.1 id then (acc.1, acc.2 ++ [id])
    else if (itemD acc.1 id).heapIdx < 0 then (enqueue acc.1 id now, acc.2)
    else acc) (q, [])

/-- `backoff.Fail` on item fields -/
def failItem (dur maxB : Int) (now : Int) (x : Item) : Item :=
  let d := ((x.cf : Int) + 1) * dur
  if d > maxB then { x with untl := now + maxB }
  else { x with cf := x.cf + 1, untl := now + d }

/-- `Queue.SetIndexed` -/
def setIndexed (q : Q) (o : Opts) (st : Nat) (now : Int) : Q :=
  let q1 := getOrAdd q o.rid
  let q2 := modify q1 o.rid fun x => { x with state := st }
  if st ≠ stFail then
    let q3 := modify q2 o.rid fun x => { x with indexed := decide (o = x.opts), cf := 0, untl := tEpoch }
    let it := itemD q3 o.rid
    if it.heapIdx ≥ 0 then hfix q3 it.heapIdx.toNat else q3
  else
    let q3 := modify q2 o.rid (failItem q.dur q.maxB now)
    let it := itemD q3 o.rid
    if it.heapIdx ≥ 0 then
      let r := hremove q3 it.heapIdx.toNat
      modify r.1 o.rid (setIdx (-1))
    else q3

/-- one iteration of the removal loop of `MaybeRemoveMissing` for the item keyed `id` -/
def removeOne (q : Q) (id : Nat) : Q :=
  let it := itemD q id
  let q1 := if it.heapIdx ≥ 0 then (hremove q it.heapIdx.toNat).1 else q
  { q1 with items := q1.items.filter fun x => x.id ≠ id }

/-- `Queue.MaybeRemoveMissing` (after the fix: keyed by `item.repoID`). The Go loop ranges over the
    map in unspecified order; the model visits the items in list order (the driver resynchronises the
    heap layout with the observed one, see `adoptPq`). Returns the removed ids. -/
def removeMissing (q : Q) (ids : List Nat) : Q × List Nat :=
  if q.items.length = ids.length then (q, [])
  else
    let gone := (q.items.map (·.id)).filter fun id => !ids.contains id
    (gone.foldl removeOne q, gone)

/-- `MaybeRemoveMissing` as written before the fix: membership, deletion and the reported id all use
    `item.opts.RepoID`. Deleting another key than the visited item's makes the result depend on Go's map
    iteration order; this version visits the items in list order and is used only for the witness. -/
def removeMissingAsWritten (q : Q) (ids : List Nat) : Q × List Nat :=
  if q.items.length = ids.length then (q, [])
  else
    q.items.foldl (fun (acc : Q × List Nat) it0 =>
      -- an entry deleted earlier in the loop is not visited
      if !tracked acc.1 it0.id then acc else
      let it := itemD acc.1 it0.id
      if ids.contains it.opts.rid then acc else
      let q1 := if it.heapIdx ≥ 0 then (hremove acc.1 it.heapIdx.toNat).1 else acc.1
      ({ q1 with items := q1.items.filter fun x => x.id ≠ it.opts.rid }, acc.2 ++ [it.opts.rid])) (q, [])

/-- resynchronise the heap layout with an observed one (only after a removal of several on-heap
    items, whose order Go leaves unspecified): `obs` must be a permutation of the model's heap; the
    items' `heapIdx` are set to the observed positions -/
def adoptPq (q : Q) (obs : List Nat) : Q :=
  if obs.length = q.pq.length ∧ obs.all (q.pq.contains ·) ∧ q.pq.all (obs.contains ·) then
    let rec go (l : List Nat) (k : Nat) (items : List Item) : List Item :=
      match l with
      | [] => items
      | id :: r => go r (k + 1) (upd items id (setIdx k))
    { q with pq := obs, items := go obs 0 q.items }
  else q

/-- operations of a history -/
inductive Op where
  | add (o : Opts) (now : Int)
  | idx (o : Opts) (st : Nat) (now : Int)
  | pop
  | bump (ids : List Nat) (now : Int)
  | rm (ids : List Nat)
  deriving Repr

def step (q : Q) : Op → Q
  | .add o now => addOrUpdate q o now
  | .idx o st now => setIndexed q o st now
  | .pop => (pop q).1
  | .bump ids now => (bump q ids now).1
  | .rm ids => (removeMissing q ids).1

def run (q : Q) (ops : List Op) : Q := ops.foldl step q

end ZoektModel.C30
