/-
C30 — the options stored for a repository are either the zero value (the item was created by SetIndexed and never
given options) or options for that very repository.  Heap operations never touch options, so this needs no heap
reasoning.
-/
import ZoektModel.C30.Steps
namespace ZoektModel.C30

/-- same options for every id -/
def OptsEq (q q' : Q) : Prop := ∀ b, (itemD q' b).opts = (itemD q b).opts

theorem OptsEq.refl (q : Q) : OptsEq q q := fun _ => rfl
theorem OptsEq.trans {a b c : Q} (h1 : OptsEq a b) (h2 : OptsEq b c) : OptsEq a c := fun x => (h2 x).trans (h1 x)

/-- `modify` with a function that keeps id and options keeps every item's options (tracked or not) -/
theorem optsEq_modify (q : Q) (a : Nat) (f : Item → Item) (hid : ∀ x, (f x).id = x.id) (ho : ∀ x, (f x).opts = x.opts) :
    OptsEq q (modify q a f) := by
  intro b
  by_cases hb : b = a
  · subst hb
    simp only [itemD, modify, find_upd_same hid]
    cases find q.items b with
    | none => rfl
    | some x => simp [ho]
  · rw [itemD_modify_other _ _ _ _ hid hb]

theorem optsEq_pq (q : Q) (l : List Nat) : OptsEq q { q with pq := l } := fun _ => rfl

theorem optsEq_swap (q : Q) (i j : Nat) : OptsEq q (swap q i j) := by
  unfold swap
  exact ((optsEq_pq q _).trans (optsEq_modify _ _ _ (setIdx_id _) (fun _ => rfl))).trans
    (optsEq_modify _ _ _ (setIdx_id _) (fun _ => rfl))

theorem optsEq_up (q : Q) (j : Nat) : OptsEq q (up q j) := by
  induction j using Nat.strongRecOn generalizing q with
  | _ j ih =>
    rw [up]
    split
    · exact OptsEq.refl q
    · simp only []
      split
      · exact (optsEq_swap q _ _).trans (ih _ (by omega) _)
      · exact OptsEq.refl q

theorem optsEq_down (q : Q) (i n : Nat) : OptsEq q (down q i n).1 := by
  induction hk : n - i using Nat.strongRecOn generalizing q i with
  | _ k ih =>
    rw [down_unfold]
    split
    · exact OptsEq.refl q
    · rename_i h0
      have hb := childL_bounds (lessId q) q.pq i n h0
      split
      · exact (optsEq_swap q _ _).trans (ih (n - childL (lessId q) q.pq i n) (by omega) _ _ rfl)
      · exact OptsEq.refl q

theorem optsEq_qfix (q : Q) (i n : Nat) : OptsEq q (qfix q i n) := by
  unfold qfix
  split
  · exact optsEq_down q i n
  · exact (optsEq_down q i n).trans (optsEq_up _ _)

theorem optsEq_pqPush (q : Q) (a : Nat) : OptsEq q (pqPush q a) := by
  unfold pqPush
  exact (optsEq_modify q a _ (setIdx_id _) (fun _ => rfl)).trans (optsEq_pq _ _)

theorem optsEq_pqPop (q : Q) : OptsEq q (pqPop q).1 := by
  unfold pqPop
  exact (optsEq_modify q _ _ (setIdx_id _) (fun _ => rfl)).trans (optsEq_pq _ _)

theorem optsEq_hpush (q : Q) (a : Nat) : OptsEq q (hpush q a) := by
  unfold hpush
  exact (optsEq_pqPush q a).trans (optsEq_up _ _)

theorem optsEq_hpop (q : Q) : OptsEq q (hpop q).1 := by
  unfold hpop
  exact ((optsEq_swap q _ _).trans (optsEq_down _ _ _)).trans (optsEq_pqPop _)

theorem optsEq_hfix (q : Q) (i : Nat) : OptsEq q (hfix q i) := by rw [hfix_eq]; exact optsEq_qfix q i _

theorem optsEq_hremove (q : Q) (i : Nat) : OptsEq q (hremove q i).1 := by
  rw [hremove_eq]
  split
  · exact ((optsEq_swap q _ _).trans (optsEq_qfix _ _ _)).trans (optsEq_pqPop _)
  · exact optsEq_pqPop q

theorem optsEq_enqueue (q : Q) (a : Nat) (now : Int) : OptsEq q (enqueue q a now) := by
  unfold enqueue
  split
  · let q1 : Q := { q with seq := q.seq + 1 }
    let g : Item → Item := fun x => { x with seq := q1.seq, date := now }
    have gid : ∀ x, (g x).id = x.id := fun _ => rfl
    have go : ∀ x, (g x).opts = x.opts := fun _ => rfl
    have e1 : OptsEq q q1 := fun _ => rfl
    exact (e1.trans (optsEq_modify q1 a g gid go)).trans (optsEq_hpush (modify q1 a g) a)
  · exact OptsEq.refl q

theorem itemD_getOrAdd (q : Q) (a b : Nat) : itemD (getOrAdd q a) b = itemD q b := by
  unfold getOrAdd
  split
  · rfl
  · rename_i ht
    have hnone : find q.items a = none := by
      simp only [tracked] at ht; cases hf : find q.items a <;> simp_all
    simp only [itemD, find_append_new _ _ _ hnone]
    by_cases hb : b = a
    · subst hb; simp [hnone]
    · simp [hb]

theorem tracked_getOrAdd_self (q : Q) (a : Nat) : tracked (getOrAdd q a) a = true := by
  unfold getOrAdd
  split
  · assumption
  · rename_i ht
    have hnone : find q.items a = none := by
      simp only [tracked] at ht; cases hf : find q.items a <;> simp_all
    simp [tracked, find_append_new _ _ _ hnone]

/-- the options after `AddOrUpdate o`: `o` for `o.rid`, unchanged for everyone else -/
theorem opts_addOrUpdate (q : Q) (o : Opts) (now : Int) (b : Nat) :
    (itemD (addOrUpdate q o now) b).opts = if b = o.rid then o else (itemD q b).opts := by
  unfold addOrUpdate
  simp only []
  have tail : ∀ q2 : Q, OptsEq q2 (if (itemD q2 o.rid).heapIdx < 0 then enqueue q2 o.rid now else hfix q2 (itemD q2 o.rid).heapIdx.toNat) := by
    intro q2; split
    · exact optsEq_enqueue _ _ _
    · exact optsEq_hfix _ _
  rw [tail _ b]
  let f : Item → Item := fun x => { x with indexed := false, opts := o }
  have fid : ∀ x, (f x).id = x.id := fun _ => rfl
  split
  · -- options replaced
    by_cases hb : b = o.rid
    · subst hb
      rw [if_pos rfl, itemD_modify_same (getOrAdd q o.rid) o.rid f fid (tracked_getOrAdd_self q o.rid)]
    · rw [if_neg hb, itemD_modify_other (getOrAdd q o.rid) o.rid b f fid hb, itemD_getOrAdd]
  · rename_i heq
    have heq' : (itemD (getOrAdd q o.rid) o.rid).opts = o := by simpa using heq
    by_cases hb : b = o.rid
    · subst hb; rw [if_pos rfl]; exact heq'
    · rw [if_neg hb, itemD_getOrAdd]

theorem optsEq_setIndexed (q : Q) (o : Opts) (st : Nat) (now : Int) : OptsEq q (setIndexed q o st now) := by
  unfold setIndexed
  simp only []
  have h1 : OptsEq q (getOrAdd q o.rid) := fun b => by rw [itemD_getOrAdd]
  let f1 : Item → Item := fun x => { x with state := st }
  have f1id : ∀ x, (f1 x).id = x.id := fun _ => rfl
  have f1o : ∀ x, (f1 x).opts = x.opts := fun _ => rfl
  have h2 : OptsEq (getOrAdd q o.rid) (modify (getOrAdd q o.rid) o.rid f1) := optsEq_modify _ _ f1 f1id f1o
  let f2 : Item → Item := fun x => { x with indexed := decide (o = x.opts), cf := 0, untl := tEpoch }
  have f2id : ∀ x, (f2 x).id = x.id := fun _ => rfl
  have f2o : ∀ x, (f2 x).opts = x.opts := fun _ => rfl
  split
  · have h3 := optsEq_modify (modify (getOrAdd q o.rid) o.rid f1) o.rid f2 f2id f2o
    split
    · exact ((h1.trans h2).trans h3).trans (optsEq_hfix _ _)
    · exact (h1.trans h2).trans h3
  · have h3 := optsEq_modify (modify (getOrAdd q o.rid) o.rid f1) o.rid
      (failItem q.dur q.maxB now) (fun x => (backoffDur_eq q.dur q.maxB now x).2.1) (fun x => (backoffDur_eq q.dur q.maxB now x).2.2.2)
    split
    · exact (((h1.trans h2).trans h3).trans (optsEq_hremove _ _)).trans (optsEq_modify _ _ (setIdx (-1)) (setIdx_id _) (fun _ => rfl))
    · exact (h1.trans h2).trans h3

theorem optsEq_pop (q : Q) : OptsEq q (pop q).1 := by
  unfold pop
  split
  · exact OptsEq.refl q
  · let g : Item → Item := fun x => { x with date := tEpoch }
    have gid : ∀ x, (g x).id = x.id := fun _ => rfl
    have go : ∀ x, (g x).opts = x.opts := fun _ => rfl
    exact (optsEq_hpop q).trans (optsEq_modify _ _ g gid go)

theorem optsEq_bump (q : Q) (ids : List Nat) (now : Int) : OptsEq q (bump q ids now).1 := by
  rw [bump_eq]
  have gen : ∀ (l : List Nat) (acc : Q × List Nat), OptsEq acc.1 (l.foldl (bumpStep now) acc).1 := by
    intro l
    induction l with
    | nil => exact fun acc => OptsEq.refl _
    | cons id r ih =>
      intro acc
      simp only [List.foldl_cons]
      refine OptsEq.trans ?_ (ih _)
      unfold bumpStep
      split
      · exact OptsEq.refl _
      · split
        · exact optsEq_enqueue _ _ _
        · exact OptsEq.refl _
  exact gen ids (q, [])

/-- the stored options are zero-valued or for the repository itself -/
def OptsOK (q : Q) : Prop := ∀ a, (itemD q a).opts = Opts.zero ∨ (itemD q a).opts.rid = a

theorem optsOK_of_eq {q q' : Q} (h : OptsEq q q') (hq : OptsOK q) : OptsOK q' := fun a => by rw [h a]; exact hq a

theorem optsOK_removeOne (q : Q) (a : Nat) (hq : OptsOK q) : OptsOK (removeOne q a) := by
  unfold removeOne
  simp only []
  intro b
  have key : ∀ q1 : Q, OptsOK q1 → (itemD ({ q1 with items := q1.items.filter fun x => x.id ≠ a } : Q) b).opts = Opts.zero ∨
      (itemD ({ q1 with items := q1.items.filter fun x => x.id ≠ a } : Q) b).opts.rid = b := by
    intro q1 h1
    simp only [itemD, find_filter_ne]
    by_cases hb : b = a
    · simp [hb, newItem]
    · simp only [hb, if_false]; exact h1 b
  split
  · exact key _ (optsOK_of_eq (optsEq_hremove q _) hq)
  · exact key _ hq

theorem optsOK_removeFold (gone : List Nat) (q : Q) (hq : OptsOK q) : OptsOK (gone.foldl removeOne q) := by
  induction gone generalizing q with
  | nil => exact hq
  | cons a r ih => simp only [List.foldl_cons]; exact ih _ (optsOK_removeOne q a hq)

theorem optsOK_removeMissing (q : Q) (ids : List Nat) (hq : OptsOK q) : OptsOK (removeMissing q ids).1 := by
  unfold removeMissing
  split
  · exact hq
  · exact optsOK_removeFold _ q hq

theorem optsOK_step (q : Q) (op : Op) (hq : OptsOK q) : OptsOK (step q op) := by
  cases op with
  | add o now =>
    intro b
    show (itemD (addOrUpdate q o now) b).opts = Opts.zero ∨ (itemD (addOrUpdate q o now) b).opts.rid = b
    rw [opts_addOrUpdate]
    split
    · rename_i hb; right; exact hb.symm
    · exact hq b
  | idx o st now => exact optsOK_of_eq (optsEq_setIndexed q o st now) hq
  | pop => exact optsOK_of_eq (optsEq_pop q) hq
  | bump ids now => exact optsOK_of_eq (optsEq_bump q ids now) hq
  | rm ids => exact optsOK_removeMissing q ids hq

theorem optsOK_run (q : Q) (ops : List Op) (hq : OptsOK q) : OptsOK (run q ops) := by
  induction ops generalizing q with
  | nil => exact hq
  | cons op r ih => exact ih _ (optsOK_step q op hq)

theorem optsOK_newQ (d m : Int) : OptsOK (newQ d m) := by
  intro a
  left
  unfold newQ
  split <;> rfl

end ZoektModel.C30
