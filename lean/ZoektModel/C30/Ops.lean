/-
C30 — lemmas, part 3: the queue operations preserve the well-formedness invariant
`WF q = Cons q ∧ heap-ordered (q.pq) w.r.t. lessQueueItemPriority`.
-/
import ZoektModel.C30.Heap
namespace ZoektModel.C30

/-! ### `lessQueueItemPriority` is a strict weak order (it is the lexicographic order of `rank`) -/

theorem lessPrio_eq_rank (x y : Item) : lessPrio x y = rankLt (rank x) (rank y) := by
  unfold lessPrio rankLt rank
  cases x.indexed <;> cases y.indexed <;> cases hx : (x.state == stFail) <;> cases hy : (y.state == stFail) <;> simp

theorem rankLt_iff (a b : Nat × Nat × Nat) :
    rankLt a b = true ↔ a.1 < b.1 ∨ (a.1 = b.1 ∧ (a.2.1 < b.2.1 ∨ (a.2.1 = b.2.1 ∧ a.2.2 < b.2.2))) := by
  simp [rankLt]

theorem rankLt_false_iff (a b : Nat × Nat × Nat) :
    rankLt a b = false ↔ ¬ (a.1 < b.1 ∨ (a.1 = b.1 ∧ (a.2.1 < b.2.1 ∨ (a.2.1 = b.2.1 ∧ a.2.2 < b.2.2)))) := by
  rw [← rankLt_iff]; cases rankLt a b <;> simp

theorem lessId_swo (q : Q) : SWO (lessId q) := by
  refine ⟨?_, ?_, ?_⟩
  · intro a
    simp only [lessId, lessPrio_eq_rank, rankLt_false_iff]; omega
  · intro a b c
    simp only [lessId, lessPrio_eq_rank, rankLt_iff]; omega
  · intro a b c
    simp only [lessId, lessPrio_eq_rank, rankLt_false_iff]; omega

/-- the invariant of the queue -/
def WF (q : Q) : Prop := Cons q ∧ HeapN (lessId q) q.pq q.pq.length

/-! ### `up`/`down` permute the first `n` slots and leave the rest alone -/

def InN (l : List Nat) (n a : Nat) : Prop := ∃ k, k < n ∧ at_ l k = a

theorem inPq_iff_inN (l : List Nat) (a : Nat) : InPq l a ↔ InN l l.length a := Iff.rfl

theorem inN_swapL (l : List Nat) (i j n a : Nat) (hn : n ≤ l.length) (hi : i < n) (hj : j < n) :
    InN (swapL l i j) n a ↔ InN l n a := by
  have hil : i < l.length := by omega
  have hjl : j < l.length := by omega
  constructor
  · rintro ⟨k, hk, e⟩
    rw [at_swapL' l i j k hil hjl] at e
    exact ⟨sw i j k, sw_lt i j k n hi hj hk, e⟩
  · rintro ⟨k, hk, e⟩
    refine ⟨sw i j k, sw_lt i j k n hi hj hk, ?_⟩
    rw [at_swapL' l i j _ hil hjl, sw_sw]; exact e

/-- `l'` is `l` with its first `n` slots permuted -/
def PermN (l l' : List Nat) (n : Nat) : Prop :=
  l'.length = l.length ∧ (∀ a, InN l' n a ↔ InN l n a) ∧ (∀ k, n ≤ k → at_ l' k = at_ l k)

theorem PermN.refl (l : List Nat) (n : Nat) : PermN l l n := ⟨rfl, fun _ => Iff.rfl, fun _ _ => rfl⟩

theorem PermN.trans {a b c : List Nat} {n : Nat} (h1 : PermN a b n) (h2 : PermN b c n) : PermN a c n :=
  ⟨h2.1.trans h1.1, fun x => (h2.2.1 x).trans (h1.2.1 x), fun k hk => (h2.2.2 k hk).trans (h1.2.2 k hk)⟩

theorem permN_swapL (l : List Nat) (i j n : Nat) (hn : n ≤ l.length) (hi : i < n) (hj : j < n) : PermN l (swapL l i j) n :=
  ⟨swapL_length l i j, fun a => inN_swapL l i j n a hn hi hj,
   fun k hk => at_swapL_other l i j k (by omega) (by omega) (by omega) (by omega)⟩

theorem permN_upL (lt : Nat → Nat → Bool) (l : List Nat) (j n : Nat) (hn : n ≤ l.length) (hj : j < n) : PermN l (upL lt l j) n := by
  induction j using Nat.strongRecOn generalizing l with
  | _ j ih =>
    rw [upL]
    split
    · exact PermN.refl l n
    · simp only []
      split
      · exact (permN_swapL l ((j - 1) / 2) j n hn (by omega) hj).trans
          (ih ((j - 1) / 2) (by omega) (swapL l ((j - 1) / 2) j) (by rw [swapL_length]; exact hn) (by omega))
      · exact PermN.refl l n

theorem permN_downL (lt : Nat → Nat → Bool) (l : List Nat) (i n : Nat) (hn : n ≤ l.length) (hi : i < n) :
    PermN l (downL lt l i n).1 n := by
  induction hk : n - i using Nat.strongRecOn generalizing l i with
  | _ k ih =>
    rw [downL]
    split
    · exact PermN.refl l n
    · rename_i h0
      have hb := childL_bounds lt l i n h0
      split
      · exact (permN_swapL l i (childL lt l i n) n hn hi hb.1).trans
          (ih (n - childL lt l i n) (by omega) (swapL l i (childL lt l i n)) (childL lt l i n) (by rw [swapL_length]; exact hn) hb.1 rfl)
      · exact PermN.refl l n

theorem permN_fixL (lt : Nat → Nat → Bool) (l : List Nat) (i n : Nat) (hn : n ≤ l.length) (hi : i < n) : PermN l (fixL lt l i n) n := by
  unfold fixL
  split
  · exact permN_downL lt l i n hn hi
  · exact (permN_downL lt l i n hn hi).trans
      (permN_upL lt _ i n (by rw [downL_length]; exact hn) hi)

/-! ### `heap.Fix` and the tail of `heap.Remove` on the queue -/

def qfix (q : Q) (i n : Nat) : Q :=
  if (down q i n).2 > i then (down q i n).1 else up (down q i n).1 i

theorem hfix_eq (q : Q) (i : Nat) : hfix q i = qfix q i q.pq.length := rfl

theorem qfix_spec (q : Q) (i n : Nat) (hc : Cons q) (hn : n ≤ q.pq.length) (hi : i < n) :
    Cons (qfix q i n) ∧ Same q (qfix q i n) ∧ (qfix q i n).pq = fixL (lessId q) q.pq i n := by
  have hd := down_spec q i n hc hn (by omega)
  unfold qfix fixL
  rw [hd.2.2.2]
  split
  · exact ⟨hd.1, hd.2.1, hd.2.2.1⟩
  · have hlen : (down q i n).1.pq.length = q.pq.length := by rw [hd.2.2.1, downL_length]
    have hu := up_spec (down q i n).1 i hd.1 (by rw [hlen]; omega)
    refine ⟨hu.1, hd.2.1.trans hu.2.1, ?_⟩
    rw [hu.2.2, hd.2.2.1]
    congr 1
    funext a b
    exact hd.2.1.lessId a b

theorem heapN_congr {lt lt' : Nat → Nat → Bool} (h : ∀ a b, lt' a b = lt a b) {l : List Nat} {n : Nat} (hh : HeapN lt l n) :
    HeapN lt' l n := fun k hk0 hkn => by rw [h]; exact hh k hk0 hkn

/-- `heap.Fix(i)` restores the invariant when only position `i` may be out of place -/
theorem hfix_wf (q : Q) (i : Nat) (hc : Cons q) (hi : i < q.pq.length) (hf : FixInv (lessId q) q.pq i q.pq.length) :
    WF (hfix q i) ∧ Same q (hfix q i) ∧ PermN q.pq (hfix q i).pq q.pq.length := by
  have hs := qfix_spec q i q.pq.length hc (Nat.le_refl _) hi
  rw [hfix_eq]
  have hp := permN_fixL (lessId q) q.pq i q.pq.length (Nat.le_refl _) hi
  rw [← hs.2.2] at hp
  refine ⟨⟨hs.1, ?_⟩, hs.2.1, hp⟩
  have hh := fixL_heap (lessId_swo q) q.pq i q.pq.length (Nat.le_refl _) hi hf
  rw [← hs.2.2] at hh
  rw [hp.1]
  exact heapN_congr (fun a b => hs.2.1.lessId a b) hh

/-! ### `pqueue.Push` / `pqueue.Pop` -/

theorem at_append_lt (l : List Nat) (x k : Nat) (hk : k < l.length) : at_ (l ++ [x]) k = at_ l k := by
  simp [at_, List.getD_eq_getElem?_getD, List.getElem?_append_left hk]

theorem at_append_eq (l : List Nat) (x : Nat) : at_ (l ++ [x]) l.length = x := by
  simp [at_, List.getD_eq_getElem?_getD]

theorem at_take (l : List Nat) (m k : Nat) (hk : k < m) : at_ (l.take m) k = at_ l k := by
  simp [at_, List.getD_eq_getElem?_getD, List.getElem?_take, hk]

theorem pqPush_pq (q : Q) (a : Nat) : (pqPush q a).pq = q.pq ++ [a] := rfl

theorem itemD_pqPush (q : Q) (a b : Nat) (ht : tracked q a = true) :
    itemD (pqPush q a) b = if b = a then setIdx q.pq.length (itemD q a) else itemD q b := by
  show itemD (modify q a (setIdx q.pq.length)) b = _
  by_cases h : b = a
  · subst h; rw [if_pos rfl, itemD_modify_same _ _ _ (setIdx_id _) ht]
  · rw [if_neg h, itemD_modify_other _ _ _ _ (setIdx_id _) h]

theorem tracked_pqPush (q : Q) (a b : Nat) : tracked (pqPush q a) b = tracked q b :=
  tracked_modify q a b _ (setIdx_id _)

theorem cons_pqPush {q : Q} (hc : Cons q) (a : Nat) (ht : tracked q a = true) (hn : ¬ InPq q.pq a) : Cons (pqPush q a) := by
  refine ⟨?_, ?_, ?_, ?_⟩
  · intro i j hi hj e
    rw [pqPush_pq] at hi hj e
    simp only [List.length_append, List.length_cons, List.length_nil] at hi hj
    by_cases hi' : i < q.pq.length
    · by_cases hj' : j < q.pq.length
      · rw [at_append_lt _ _ _ hi', at_append_lt _ _ _ hj'] at e; exact hc.inj i j hi' hj' e
      · have : j = q.pq.length := by omega
        subst this
        rw [at_append_lt _ _ _ hi', at_append_eq] at e
        exact absurd ⟨i, hi', e⟩ hn
    · have : i = q.pq.length := by omega
      subst this
      by_cases hj' : j < q.pq.length
      · rw [at_append_lt _ _ _ hj', at_append_eq] at e
        exact absurd ⟨j, hj', e.symm⟩ hn
      · omega
  · show ((upd q.items a (setIdx q.pq.length)).map (·.id)).Nodup
    rw [upd_ids (setIdx_id _)]; exact hc.keys
  · intro i hi
    rw [pqPush_pq] at hi ⊢
    simp only [List.length_append, List.length_cons, List.length_nil] at hi
    rw [tracked_pqPush, itemD_pqPush q a _ ht]
    by_cases hi' : i < q.pq.length
    · rw [at_append_lt _ _ _ hi']
      have : at_ q.pq i ≠ a := fun e => hn ⟨i, hi', e⟩
      rw [if_neg this]
      exact hc.slot i hi'
    · have : i = q.pq.length := by omega
      subst this
      rw [at_append_eq, if_pos rfl]
      exact ⟨ht, rfl⟩
  · intro b hb hnb
    rw [tracked_pqPush] at hb
    rw [itemD_pqPush q a b ht]
    have hba : b ≠ a := by
      intro e; subst e
      exact hnb ⟨q.pq.length, by rw [pqPush_pq]; simp, by rw [pqPush_pq, at_append_eq]⟩
    rw [if_neg hba]
    apply hc.off b hb
    rintro ⟨k, hk, e⟩
    exact hnb ⟨k, by rw [pqPush_pq]; simp; omega, by rw [pqPush_pq, at_append_lt _ _ _ hk]; exact e⟩

theorem same_pqPush (q : Q) (a : Nat) (ht : tracked q a = true) : Same q (pqPush q a) := by
  refine ⟨tracked_pqPush q a, ?_, ?_, rfl, rfl, rfl⟩
  · intro b
    rw [itemD_pqPush q a b ht]
    split
    · rename_i h; subst h; rfl
    · rfl
  · show (upd q.items a (setIdx q.pq.length)).map (·.id) = _
    rw [upd_ids (setIdx_id _)]

/-- `heap.Push` -/
theorem hpush_wf (q : Q) (a : Nat) (hw : WF q) (ht : tracked q a = true) (hn : ¬ InPq q.pq a) :
    WF (hpush q a) ∧ Same q (hpush q a) ∧ (∀ b, InPq (hpush q a).pq b ↔ InPq q.pq b ∨ b = a) := by
  have hc1 := cons_pqPush hw.1 a ht hn
  have hs1 := same_pqPush q a ht
  have hlen : (pqPush q a).pq.length = q.pq.length + 1 := by rw [pqPush_pq]; simp
  have hu := up_spec (pqPush q a) q.pq.length hc1 (by omega)
  have hp := permN_upL (lessId (pqPush q a)) (pqPush q a).pq q.pq.length (q.pq.length + 1) (by omega) (by omega)
  have e : hpush q a = up (pqPush q a) q.pq.length := by
    show up (pqPush q a) ((pqPush q a).pq.length - 1) = _
    rw [hlen]; rfl
  rw [e]
  rw [← hu.2.2] at hp
  refine ⟨⟨hu.1, ?_⟩, hs1.trans hu.2.1, ?_⟩
  · rw [hp.1, hlen, hu.2.2]
    apply heapN_congr (fun x y => hu.2.1.lessId x y)
    apply upL_heap (lessId_swo _) _ _ _ (by omega) (by omega)
    refine ⟨?_, ?_⟩
    · intro k hk0 hkn hkne
      have hk : k < q.pq.length := by omega
      rw [pqPush_pq, at_append_lt _ _ _ hk, at_append_lt _ _ _ (by omega), hs1.lessId]
      exact hw.2 k hk0 hk
    · intro _ c hc0 hcn hpc
      omega
  · intro b
    rw [inPq_iff_inN, hp.1, hlen, hp.2.1 b]
    constructor
    · rintro ⟨k, hk, e⟩
      by_cases hk' : k < q.pq.length
      · rw [pqPush_pq, at_append_lt _ _ _ hk'] at e; exact Or.inl ⟨k, hk', e⟩
      · have : k = q.pq.length := by omega
        subst this
        rw [pqPush_pq, at_append_eq] at e; exact Or.inr e.symm
    · rintro (⟨k, hk, e⟩ | e)
      · exact ⟨k, by omega, by rw [pqPush_pq, at_append_lt _ _ _ hk]; exact e⟩
      · exact ⟨q.pq.length, by omega, by rw [pqPush_pq, at_append_eq]; exact e.symm⟩

theorem pqPop_pq (q : Q) : (pqPop q).1.pq = q.pq.take (q.pq.length - 1) := rfl
theorem pqPop_id (q : Q) : (pqPop q).2 = at_ q.pq (q.pq.length - 1) := rfl

theorem itemD_pqPop (q : Q) (b : Nat) (ht : tracked q (at_ q.pq (q.pq.length - 1)) = true) :
    itemD (pqPop q).1 b = if b = at_ q.pq (q.pq.length - 1) then setIdx (-1) (itemD q b) else itemD q b := by
  show itemD (modify q (at_ q.pq (q.pq.length - 1)) (setIdx (-1))) b = _
  by_cases h : b = at_ q.pq (q.pq.length - 1)
  · rw [if_pos h, h, itemD_modify_same _ _ _ (setIdx_id _) ht]
  · rw [if_neg h, itemD_modify_other _ _ _ _ (setIdx_id _) h]

theorem tracked_pqPop (q : Q) (b : Nat) : tracked (pqPop q).1 b = tracked q b :=
  tracked_modify q _ b _ (setIdx_id _)

/-- in an injective array whose last slot is `n`, the first `n` slots hold everything but the last element -/
theorem inN_of_inj {l : List Nat} (hinj : Inj l) (n : Nat) (hn : n + 1 = l.length) (a : Nat) :
    InN l n a ↔ InPq l a ∧ a ≠ at_ l n := by
  constructor
  · rintro ⟨k, hk, e⟩
    refine ⟨⟨k, by omega, e⟩, fun h => ?_⟩
    have := hinj k n (by omega) (by omega) (e.trans h)
    omega
  · rintro ⟨⟨k, hk, e⟩, hne⟩
    have : k ≠ n := fun h => hne (by rw [← e, h])
    exact ⟨k, by omega, e⟩

theorem inPq_take (l : List Nat) (n a : Nat) (hn : n ≤ l.length) : InPq (l.take n) a ↔ InN l n a := by
  have hlen : (l.take n).length = n := by simp; omega
  constructor
  · rintro ⟨k, hk, e⟩
    rw [hlen] at hk
    exact ⟨k, hk, by rw [← at_take l n k hk]; exact e⟩
  · rintro ⟨k, hk, e⟩
    exact ⟨k, by rw [hlen]; exact hk, by rw [at_take l n k hk]; exact e⟩

/-- `pqueue.Pop` keeps the bookkeeping consistent; the heap property of the remaining prefix is kept -/
theorem pqPop_spec {q : Q} (hc : Cons q) (hpos : 0 < q.pq.length) :
    Cons (pqPop q).1 ∧ Same q (pqPop q).1 ∧
      (HeapN (lessId q) q.pq (q.pq.length - 1) → HeapN (lessId (pqPop q).1) (pqPop q).1.pq (pqPop q).1.pq.length) ∧
      (∀ a, InPq (pqPop q).1.pq a ↔ InPq q.pq a ∧ a ≠ (pqPop q).2) ∧
      (itemD (pqPop q).1 (pqPop q).2).heapIdx = -1 := by
  have hlast := hc.slot (q.pq.length - 1) (by omega)
  have hsame : Same q (pqPop q).1 := by
    refine ⟨tracked_pqPop q, ?_, ?_, rfl, rfl, rfl⟩
    · intro b
      rw [itemD_pqPop q b hlast.1]
      split <;> rfl
    · show (upd q.items _ (setIdx (-1))).map (·.id) = _
      rw [upd_ids (setIdx_id _)]
  have hlen : (pqPop q).1.pq.length = q.pq.length - 1 := by rw [pqPop_pq]; simp
  refine ⟨⟨?_, ?_, ?_, ?_⟩, hsame, ?_, ?_, ?_⟩
  · intro i j hi hj e
    rw [hlen] at hi hj
    rw [pqPop_pq, at_take _ _ _ hi, at_take _ _ _ hj] at e
    exact hc.inj i j (by omega) (by omega) e
  · show ((upd q.items _ (setIdx (-1))).map (·.id)).Nodup
    rw [upd_ids (setIdx_id _)]; exact hc.keys
  · intro i hi
    rw [hlen] at hi
    rw [pqPop_pq, at_take _ _ _ hi, tracked_pqPop, itemD_pqPop q _ hlast.1]
    have : at_ q.pq i ≠ at_ q.pq (q.pq.length - 1) := fun e => by
      have := hc.inj i (q.pq.length - 1) (by omega) (by omega) e; omega
    rw [if_neg this]
    exact hc.slot i (by omega)
  · intro b hb hnb
    rw [tracked_pqPop] at hb
    rw [itemD_pqPop q b hlast.1]
    split
    · rfl
    · rename_i hne
      apply hc.off b hb
      rintro ⟨k, hk, e⟩
      apply hnb
      have : k ≠ q.pq.length - 1 := fun h => hne (by rw [← e, h])
      exact ⟨k, by rw [hlen]; omega, by rw [pqPop_pq, at_take _ _ _ (by omega)]; exact e⟩
  · intro hh
    rw [hlen]
    apply heapN_congr (fun a b => hsame.lessId a b)
    intro k hk0 hkn
    rw [pqPop_pq, at_take _ _ _ hkn, at_take _ _ _ (by omega)]
    exact hh k hk0 hkn
  · intro a
    rw [pqPop_pq, pqPop_id, inPq_take _ _ _ (by omega)]
    exact inN_of_inj hc.inj (q.pq.length - 1) (by omega) a
  · rw [pqPop_id, itemD_pqPop q _ hlast.1, if_pos rfl]; rfl

/-- `heap.Pop`: yields the root, which is a minimum, and leaves a well-formed queue without it -/
theorem hpop_wf (q : Q) (hw : WF q) (hpos : 0 < q.pq.length) :
    WF (hpop q).1 ∧ Same q (hpop q).1 ∧ (hpop q).2 = at_ q.pq 0 ∧
      (∀ a, InPq (hpop q).1.pq a ↔ InPq q.pq a ∧ a ≠ (hpop q).2) ∧
      (∀ k, k < q.pq.length → lessId q (at_ q.pq k) (hpop q).2 = false) ∧
      (itemD (hpop q).1 (hpop q).2).heapIdx = -1 := by
  obtain ⟨hc, hh⟩ := hw
  let n := q.pq.length - 1
  have hn : n < q.pq.length := by omega
  have hc1 := cons_swap hc 0 n hpos hn
  have hs1 := same_swap hc 0 n hpos hn
  have hl1 : (swap q 0 n).pq.length = q.pq.length := swap_length q 0 n
  -- down(0, n) on the first n slots
  by_cases hn0 : n = 0
  · -- single element
    have e : hpop q = pqPop (down (swap q 0 n) 0 n).1 := rfl
    have ed : (down (swap q 0 n) 0 n) = (swap q 0 n, 0) := by rw [down_unfold]; simp [hn0]
    rw [e, ed]
    have hp := pqPop_spec hc1 (by omega)
    have hid : (pqPop (swap q 0 n)).2 = at_ q.pq 0 := by
      rw [pqPop_id, hl1, swap_pq]; show at_ (swapL q.pq 0 n) n = _
      rw [at_swapL_j q.pq 0 n hpos hn]
    refine ⟨⟨hp.1, hp.2.2.1 (fun k hk0 hkn => by omega)⟩, hs1.trans hp.2.1, hid, ?_, ?_, hp.2.2.2.2⟩
    · intro a
      rw [hp.2.2.2.1 a, swap_pq, inPq_swapL _ _ _ hpos hn]
    · intro k hk
      have : k = 0 := by omega
      rw [this, hid]; exact (lessId_swo q).irrefl _
  · have hd := down_spec (swap q 0 n) 0 n hc1 (by omega) (by omega)
    have hperm := permN_downL (lessId (swap q 0 n)) (swap q 0 n).pq 0 n (by omega) (by omega)
    rw [← hd.2.2.1] at hperm
    have hheap : HeapN (lessId (swap q 0 n)) (down (swap q 0 n) 0 n).1.pq n := by
      rw [hd.2.2.1]
      apply downL_heap (lessId_swo _) _ 0 n (by omega) (by omega)
      refine ⟨?_, fun h => by omega⟩
      intro k hk0 hkn hp
      rw [swap_pq, at_swapL_other _ _ _ _ hpos hn (by omega) (by omega),
        at_swapL_other _ _ _ _ hpos hn (by omega) (by omega), hs1.lessId]
      exact hh k hk0 (by omega)
    have hl2 : (down (swap q 0 n) 0 n).1.pq.length = q.pq.length := by rw [hperm.1, hl1]
    have hp := pqPop_spec hd.1 (by omega)
    have e : hpop q = pqPop (down (swap q 0 n) 0 n).1 := rfl
    have hlast : at_ (down (swap q 0 n) 0 n).1.pq n = at_ q.pq 0 := by
      rw [hperm.2.2 n (Nat.le_refl _), swap_pq, at_swapL_j q.pq 0 n hpos hn]
    have hid : (pqPop (down (swap q 0 n) 0 n).1).2 = at_ q.pq 0 := by
      rw [pqPop_id, hl2]; exact hlast
    rw [e]
    refine ⟨⟨hp.1, hp.2.2.1 ?_⟩, (hs1.trans hd.2.1).trans hp.2.1, hid, ?_, ?_, hp.2.2.2.2⟩
    · rw [hl2]
      exact heapN_congr (fun a b => hd.2.1.lessId a b) hheap
    · intro a
      rw [hp.2.2.2.1 a, hid]
      have h1 : InPq (down (swap q 0 n) 0 n).1.pq a ↔ InPq q.pq a := by
        constructor
        · rintro ⟨k, hk, ek⟩
          rw [hl2] at hk
          by_cases hkn : k < n
          · have := (hperm.2.1 a).mp ⟨k, hkn, ek⟩
            obtain ⟨k', hk', ek'⟩ := this
            exact (inPq_swapL 0 n a hpos hn).mp ⟨k', by rw [swap_pq] at *; rw [swapL_length]; omega, by rw [← swap_pq]; exact ek'⟩
          · have : k = n := by omega
            rw [this, hlast] at ek
            exact ⟨0, hpos, ek⟩
        · intro hin
          have := (inPq_swapL 0 n a hpos hn).mpr hin
          obtain ⟨k, hk, ek⟩ := this
          rw [swapL_length] at hk
          by_cases hkn : k < n
          · obtain ⟨k', hk', ek'⟩ := (hperm.2.1 a).mpr ⟨k, hkn, by rw [swap_pq]; exact ek⟩
            exact ⟨k', by rw [hl2]; omega, ek'⟩
          · have hkn' : k = n := by omega
            refine ⟨n, by rw [hl2]; exact hn, ?_⟩
            rw [hperm.2.2 n (Nat.le_refl _), swap_pq]
            rw [hkn'] at ek; exact ek
      rw [h1]
    · intro k hk
      rw [hid]
      exact heap_root_min (lessId_swo q) q.pq q.pq.length hh k hk

theorem hremove_eq (q : Q) (i : Nat) :
    hremove q i = if q.pq.length - 1 ≠ i then pqPop (qfix (swap q i (q.pq.length - 1)) i (q.pq.length - 1)) else pqPop q := rfl

/-- `heap.Remove(i)`. The element at slot `i` may already have changed its priority (SetIndexed changes the state
    before it removes): the array need only be a heap for an order `lt0` that agrees with the current one
    away from that element. -/
theorem hremove_wf (q : Q) (i : Nat) (hc : Cons q) (hi : i < q.pq.length)
    (lt0 : Nat → Nat → Bool) (hswo : SWO lt0) (hh : HeapN lt0 q.pq q.pq.length)
    (hag : ∀ x y, x ≠ at_ q.pq i → y ≠ at_ q.pq i → lessId q x y = lt0 x y) :
    WF (hremove q i).1 ∧ Same q (hremove q i).1 ∧ (hremove q i).2 = at_ q.pq i ∧
      (∀ a, InPq (hremove q i).1.pq a ↔ InPq q.pq a ∧ a ≠ at_ q.pq i) ∧
      (itemD (hremove q i).1 (at_ q.pq i)).heapIdx = -1 := by
  have ne : ∀ k, k < q.pq.length → k ≠ i → at_ q.pq k ≠ at_ q.pq i := fun k hk hki e => hki (hc.inj k i hk hi e)
  rw [hremove_eq]
  generalize hndef : q.pq.length - 1 = n
  have hn : n < q.pq.length := by omega
  by_cases hni : n = i
  · rw [if_neg (by simpa using hni)]
    have hp := pqPop_spec hc (by omega)
    have hid : (pqPop q).2 = at_ q.pq i := by rw [pqPop_id, hndef, hni]
    refine ⟨⟨hp.1, hp.2.2.1 (fun k hk0 hkn => ?_)⟩, hp.2.1, hid, ?_, ?_⟩
    · rw [hag _ _ (ne k (by omega) (by omega)) (ne _ (by omega) (by omega))]
      exact hh k hk0 (by omega)
    · intro a; rw [hp.2.2.2.1 a, hid]
    · rw [← hid]; exact hp.2.2.2.2
  · rw [if_pos hni]
    have hin : i < n := by omega
    have hc1 := cons_swap hc i n hi hn
    have hs1 := same_swap hc i n hi hn
    have hl1 : (swap q i n).pq.length = q.pq.length := swap_length q i n
    have hf := qfix_spec (swap q i n) i n hc1 (by omega) hin
    have hperm := permN_fixL (lessId (swap q i n)) (swap q i n).pq i n (by omega) hin
    rw [← hf.2.2] at hperm
    have hl2 : (qfix (swap q i n) i n).pq.length = q.pq.length := by rw [hperm.1, hl1]
    have hheap : HeapN (lessId (swap q i n)) (qfix (swap q i n) i n).pq n := by
      rw [hf.2.2]
      apply fixL_heap (lessId_swo _) _ i n (by omega) hin
      refine ⟨?_, ?_⟩
      · intro k hk0 hkn hki hp
        rw [swap_pq, at_swapL_other _ _ _ _ hi hn hki (by omega),
          at_swapL_other _ _ _ _ hi hn hp (by omega), hs1.lessId,
          hag _ _ (ne k (by omega) hki) (ne _ (by omega) hp)]
        exact hh k hk0 (by omega)
      · intro hi0 c hc0 hcn hpc
        rw [swap_pq, at_swapL_other _ _ _ _ hi hn (by omega) (by omega),
          at_swapL_other _ _ _ _ hi hn (by omega) (by omega), hs1.lessId,
          hag _ _ (ne c (by omega) (by omega)) (ne _ (by omega) (by omega))]
        have e1 := hh c hc0 (by omega)
        rw [hpc] at e1
        exact hswo.ntrans _ _ _ e1 (hh i hi0 hi)
    have hlast : at_ (qfix (swap q i n) i n).pq n = at_ q.pq i := by
      rw [hperm.2.2 n (Nat.le_refl _), swap_pq, at_swapL_j q.pq i n hi hn]
    have hp := pqPop_spec hf.1 (by omega)
    have hid : (pqPop (qfix (swap q i n) i n)).2 = at_ q.pq i := by
      rw [pqPop_id, hl2, hndef]; exact hlast
    refine ⟨⟨hp.1, hp.2.2.1 ?_⟩, (hs1.trans hf.2.1).trans hp.2.1, hid, ?_, ?_⟩
    · rw [hl2, hndef]
      exact heapN_congr (fun a b => hf.2.1.lessId a b) hheap
    · intro a
      rw [hp.2.2.2.1 a, hid]
      have h1 : InPq (qfix (swap q i n) i n).pq a ↔ InPq q.pq a := by
        constructor
        · rintro ⟨k, hk, ek⟩
          rw [hl2] at hk
          by_cases hkn : k < n
          · obtain ⟨k', hk', ek'⟩ := (hperm.2.1 a).mp ⟨k, hkn, ek⟩
            exact (inPq_swapL i n a hi hn).mp ⟨k', by rw [swapL_length]; omega, by rw [← swap_pq]; exact ek'⟩
          · have hkn' : k = n := by omega
            rw [hkn', hlast] at ek
            exact ⟨i, hi, ek⟩
        · intro hin'
          obtain ⟨k, hk, ek⟩ := (inPq_swapL i n a hi hn).mpr hin'
          rw [swapL_length] at hk
          by_cases hkn : k < n
          · obtain ⟨k', hk', ek'⟩ := (hperm.2.1 a).mpr ⟨k, hkn, by rw [swap_pq]; exact ek⟩
            exact ⟨k', by rw [hl2]; omega, ek'⟩
          · have hkn' : k = n := by omega
            refine ⟨n, by rw [hl2]; exact hn, ?_⟩
            rw [hperm.2.2 n (Nat.le_refl _), swap_pq]
            rw [hkn'] at ek; exact ek
      rw [h1]
    · rw [← hid]; exact hp.2.2.2.2

/-! ### changing an item's fields (not its id, not its `heapIdx`) -/

theorem cons_modify {q : Q} (hc : Cons q) (a : Nat) (f : Item → Item) (hid : ∀ x, (f x).id = x.id)
    (hidx : ∀ x, (f x).heapIdx = x.heapIdx) : Cons (modify q a f) := by
  have hit : ∀ b, (itemD (modify q a f) b).heapIdx = (itemD q b).heapIdx := by
    intro b
    by_cases h : b = a
    · subst h
      by_cases ht : tracked q b = true
      · rw [itemD_modify_same _ _ _ hid ht, hidx]
      · have hn : find q.items b = none := by
          simp only [tracked] at ht; cases hf : find q.items b <;> simp_all
        simp only [itemD, modify, find_upd_same hid, hn]; rfl
    · rw [itemD_modify_other _ _ _ _ hid h]
  refine ⟨hc.inj, ?_, ?_, ?_⟩
  · show ((upd q.items a f).map (·.id)).Nodup
    rw [upd_ids hid]; exact hc.keys
  · intro i hi
    rw [tracked_modify _ _ _ _ hid, hit]
    exact hc.slot i hi
  · intro b hb hnb
    rw [tracked_modify _ _ _ _ hid] at hb
    rw [hit]
    exact hc.off b hb hnb

theorem lessId_modify_other (q : Q) (a : Nat) (f : Item → Item) (hid : ∀ x, (f x).id = x.id) (x y : Nat)
    (hx : x ≠ a) (hy : y ≠ a) : lessId (modify q a f) x y = lessId q x y := by
  simp only [lessId, itemD_modify_other _ _ _ _ hid hx, itemD_modify_other _ _ _ _ hid hy]

/-- a heap in which only the priority of the element at slot `i` changed satisfies `Fix`'s precondition -/
theorem fixInv_of_change {lt lt' : Nat → Nat → Bool} (hswo : SWO lt) (l : List Nat) (i : Nat) (hinj : Inj l) (hi : i < l.length)
    (hh : HeapN lt l l.length) (hag : ∀ x y, x ≠ at_ l i → y ≠ at_ l i → lt' x y = lt x y) : FixInv lt' l i l.length := by
  have ne : ∀ k, k < l.length → k ≠ i → at_ l k ≠ at_ l i := fun k hk hki e => hki (hinj k i hk hi e)
  refine ⟨?_, ?_⟩
  · intro k hk0 hkn hki hp
    rw [hag _ _ (ne k hkn hki) (ne _ (by omega) hp)]
    exact hh k hk0 hkn
  · intro hi0 c hc0 hcn hpc
    rw [hag _ _ (ne c hcn (by omega)) (ne _ (by omega) (by omega))]
    have e1 := hh c hc0 hcn
    rw [hpc] at e1
    exact hswo.ntrans _ _ _ e1 (hh i hi0 hi)

/-- position of a queued id -/
theorem slot_of_idx {q : Q} (hc : Cons q) (a : Nat) (ht : tracked q a = true) (hidx : 0 ≤ (itemD q a).heapIdx) :
    (itemD q a).heapIdx.toNat < q.pq.length ∧ at_ q.pq (itemD q a).heapIdx.toNat = a := by
  by_cases hin : InPq q.pq a
  · obtain ⟨k, hk, e⟩ := hin
    have := (hc.slot k hk).2
    rw [e] at this
    rw [this]; simp; exact ⟨hk, e⟩
  · have := hc.off a ht hin
    omega

theorem idx_of_inPq {q : Q} (hc : Cons q) (a : Nat) (hin : InPq q.pq a) : tracked q a = true ∧ 0 ≤ (itemD q a).heapIdx := by
  obtain ⟨k, hk, e⟩ := hin
  have := hc.slot k hk
  rw [e] at this
  exact ⟨this.1, by rw [this.2]; omega⟩

theorem not_inPq_of_neg {q : Q} (hc : Cons q) (a : Nat) (h : (itemD q a).heapIdx < 0) : ¬ InPq q.pq a := fun hin => by
  have := (idx_of_inPq hc a hin).2; omega

end ZoektModel.C30
