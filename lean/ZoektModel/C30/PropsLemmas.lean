/-
C30 — small lemmas used by the property theorems (list facts, links between membership and the executable predicates).
-/
import ZoektModel.C30.OptsInv
namespace ZoektModel.C30

theorem idsNodup_of_inj : ∀ (l : List Nat), Inj l → idsNodup l = true := by
  intro l
  induction l with
  | nil => intro _; rfl
  | cons a r ih =>
    intro h
    simp only [idsNodup, Bool.and_eq_true, Bool.not_eq_true']
    refine ⟨?_, ih ?_⟩
    · cases hc : r.contains a
      · rfl
      · exfalso
        have hm : a ∈ r := by simpa using hc
        obtain ⟨k, hk, e⟩ := List.getElem_of_mem hm
        have := h 0 (k + 1) (by simp) (by simpa using hk) (by simp [at_, List.getElem?_eq_getElem hk, e])
        omega
    · intro i j hi hj e
      have := h (i + 1) (j + 1) (by simpa using hi) (by simpa using hj) (by simpa [at_] using e)
      omega

theorem idsNodup_of_nodup : ∀ (l : List Nat), l.Nodup → idsNodup l = true := by
  intro l
  induction l with
  | nil => intro _; rfl
  | cons a r ih =>
    intro h
    rw [List.nodup_cons] at h
    simp only [idsNodup, Bool.and_eq_true, Bool.not_eq_true']
    exact ⟨by simpa using h.1, ih h.2⟩

theorem hpop_length (q : Q) (hw : WF q) (hpos : 0 < q.pq.length) : (hpop q).1.pq.length + 1 = q.pq.length := by
  have hc1 := cons_swap hw.1 0 (q.pq.length - 1) hpos (by omega)
  have hd := down_spec (swap q 0 (q.pq.length - 1)) 0 (q.pq.length - 1) hc1 (by rw [swap_length]; omega) (by rw [swap_length]; omega)
  show (pqPop (down (swap q 0 (q.pq.length - 1)) 0 (q.pq.length - 1)).1).1.pq.length + 1 = _
  rw [pqPop_pq, hd.2.2.1]
  simp only [List.length_take, downL_length, swap_length]
  omega

theorem mem_items_itemD {q : Q} (hc : Cons q) {x : Item} (hx : x ∈ q.items) : itemD q x.id = x ∧ tracked q x.id = true := by
  have hf := find_of_mem_nodup hc.keys hx
  exact ⟨by simp [itemD, hf], by simp [tracked, hf]⟩

theorem itemD_mem_items {q : Q} {a : Nat} (ht : tracked q a = true) : itemD q a ∈ q.items := by
  simp only [tracked] at ht
  cases hf : find q.items a with
  | none => rw [hf] at ht; cases ht
  | some x => simp only [itemD, hf]; exact find_some_mem hf

theorem contains_iff_inPq (l : List Nat) (a : Nat) : l.contains a = true ↔ InPq l a := by
  simp only [List.contains_iff_mem]
  constructor
  · intro h
    obtain ⟨k, hk, e⟩ := List.getElem_of_mem h
    exact ⟨k, hk, by simp [at_, List.getElem?_eq_getElem hk, e]⟩
  · rintro ⟨k, hk, e⟩
    rw [← e]; simp only [at_, List.getD_eq_getElem?_getD, List.getElem?_eq_getElem hk]; exact List.getElem_mem hk

theorem wf_adds (adds : List (Opts × Int)) (q : Q) (hw : WF q) (b : Nat) :
    WF (adds.foldl (fun q a => addOrUpdate q a.1 a.2) q) ∧
    tracked (adds.foldl (fun q a => addOrUpdate q a.1 a.2) q) b = (tracked q b || (adds.map (·.1.rid)).contains b) := by
  induction adds generalizing q with
  | nil => simp [hw]
  | cons a r ih =>
    simp only [List.foldl_cons, List.map_cons, List.contains_cons]
    have ha := addOrUpdate_spec q a.1 a.2 hw
    have := ih _ ha.1
    exact ⟨this.1, by rw [this.2, ha.2.1 b, Bool.or_assoc]⟩

theorem length_le_of_subset_nodup : ∀ (a b : List Nat), a.Nodup → (∀ x ∈ a, x ∈ b) → a.length ≤ b.length := by
  intro a
  induction a with
  | nil => intro b _ _; simp
  | cons x r ih =>
    intro b hn hs
    rw [List.nodup_cons] at hn
    have hx : x ∈ b := hs x (by simp)
    have := ih (b.erase x) hn.2 (fun y hy => (List.mem_erase_of_ne (fun e => hn.1 (by rw [← e]; exact hy))).mpr (hs y (by simp [hy])))
    rw [List.length_erase_of_mem hx] at this
    have hpos : 0 < b.length := List.length_pos_of_mem hx
    simp only [List.length_cons]; omega

end ZoektModel.C30
