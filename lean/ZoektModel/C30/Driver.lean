import ZoektModel.Basic.Proto
namespace ZoektModel.C30
/-- stub: no model driver for C30 yet -/
def main : IO Unit := ZoektModel.Proto.runLines (fun _ => ZoektModel.Proto.badCase "no model driver for C30")
end ZoektModel.C30
