import ZoektModel.Basic.Proto
import ZoektModel.C30.Spec
namespace ZoektModel.C30
open ZoektModel ZoektModel.Proto

/-! line protocol (one history = `new …` followed by operations; the driver is stateful)

    new <backoffNs> <maxNs>            add <rid> <var> <now>        idx <rid> <var> <state> <now>
    pop                                bump <ids> <now>             rm <ids> <observed pq>
    len                                iter

  answer / implementation output: `res=<r> seq=<n> pq=<ids> items=<id:rid.var:indexed:state:heapIdx:seq:cf:until:date;…>`
  (items by ascending id; until = `Z` zero time, `E` Unix epoch, or nanoseconds; date = `Z`, `E` or `T`). -/

def showT (t : Int) : String := if t = tZero then "Z" else if t = tEpoch then "E" else toString t
def showDate (t : Int) : String := if t = tZero then "Z" else if t = tEpoch then "E" else "T"

def insertById (x : Item) : List Item → List Item
  | [] => [x]
  | y :: r => if x.id ≤ y.id then x :: y :: r else y :: insertById x r

def sortItems (l : List Item) : List Item := l.foldr insertById []

def showItem (x : Item) : String :=
  s!"{x.id}:{x.opts.rid}.{x.opts.var}:{showBool x.indexed}:{x.state}:{x.heapIdx}:{x.seq}:{x.cf}:{showT x.untl}:{showDate x.date}"

def render (res : String) (q : Q) : String :=
  s!"res={res} seq={q.seq} pq={showNatList q.pq} items={if q.items.isEmpty then "-" else ";".intercalate ((sortItems q.items).map showItem)}"

def parseT (s : String) : Option Int :=
  if s == "Z" then some tZero else if s == "E" then some tEpoch else if s == "T" then some 0 else s.toInt?

def parseOpts (s : String) : Option Opts :=
  match s.splitOn "." with
  | [a, b] => do pure ⟨← a.toNat?, ← b.toNat?⟩
  | _ => none

def parseItem (s : String) : Option Item :=
  match s.splitOn ":" with
  | [id, o, ind, st, hi, sq, cf, un, da] => do
    pure ⟨← id.toNat?, ← parseOpts o, ← bool? ind, ← st.toNat?, ← hi.toInt?, ← sq.toNat?, ← parseT da, ← cf.toNat?, ← parseT un⟩
  | _ => none

def parseItems (s : String) : Option (List Item) :=
  if s == "-" then some [] else (s.splitOn ";").mapM parseItem

def dropPrefix? (s pre : String) : Option String :=
  if s.startsWith pre then some (s.drop pre.length).toString else none

/-- implementation output → (res, state) -/
def parseImpl (dur maxB : Int) (s : String) : Option (String × Q) :=
  match fields s with
  | [r, sq, pq, its] => do
    let r ← dropPrefix? r "res="
    let sq ← (← dropPrefix? sq "seq=").toNat?
    let pq ← natList? (← dropPrefix? pq "pq=")
    let its ← parseItems (← dropPrefix? its "items=")
    pure (r, ⟨its, pq, sq, dur, maxB⟩)
  | _ => none

def showPop : Option (Opts × Int) → String
  | none => "none"
  | some (o, d) => s!"{o.rid}.{o.var}@{showDate d}"

def parsePop (s : String) : Option (Option (Opts × Int)) :=
  if s == "none" then some none else
  match s.splitOn "@" with
  | [o, d] => do pure (some (← parseOpts o, ← parseT d))
  | _ => none

def sortNat (l : List Nat) : List Nat :=
  l.foldr (fun x acc => (acc.filter (· < x)) ++ x :: (acc.filter (fun y => ¬ y < x))) []

structure St where
  model : Q
  impl : Q
  live : Bool

def verdict (model : String) : Option String → String
  | none => answer model
  | some k => specFail model k

def handle (st : St) (line : String) : St × String :=
  let (inp, impl) := splitCase line
  match fields inp with
  | ["new", d, m] =>
    match d.toInt?, m.toInt? with
    | some d, some m =>
      let q := newQ d m
      match parseImpl q.dur q.maxB impl with
      | none => (st, badCase "impl output")
      | some (_, iq) => (⟨q, iq, true⟩, answer (render "-" q))
    | _, _ => (st, badCase "new")
  | op :: args =>
    if !st.live then (st, badCase "no queue") else
    match parseImpl st.model.dur st.model.maxB impl with
    | none => (st, badCase "impl output")
    | some (ires, iq) =>
      let fin (q : Q) (res : String) (o : Option Obs) : St × String :=
        (⟨q, iq, true⟩, verdict (render res q) (match o with | some o => checkStep st.impl iq o | none => none))
      match op, args with
      | "add", [r, v, now] =>
        match r.toNat?, v.toNat?, now.toInt? with
        | some r, some v, some now => fin (addOrUpdate st.model ⟨r, v⟩ now) "-" (some (.add ⟨r, v⟩ now))
        | _, _, _ => (st, badCase "add")
      | "idx", [r, v, s, now] =>
        match r.toNat?, v.toNat?, s.toNat?, now.toInt? with
        | some r, some v, some s, some now => fin (setIndexed st.model ⟨r, v⟩ s now) "-" (some (.idx ⟨r, v⟩ s now))
        | _, _, _, _ => (st, badCase "idx")
      | "pop", [] =>
        let r := pop st.model
        match parsePop ires with
        | some ip => fin r.1 (showPop r.2) (some (.pop ip))
        | none => (st, badCase "pop result")
      | "bump", [ids, now] =>
        match natList? ids, now.toInt?, natList? ires with
        | some ids, some now, some im =>
          let r := bump st.model ids now
          fin r.1 (showNatList r.2) (some (.bump ids now im))
        | _, _, _ => (st, badCase "bump")
      | "rm", [ids, obs] =>
        match natList? ids, natList? obs, natList? ires with
        | some ids, some obs, some ir =>
          let r := removeMissing st.model ids
          fin (adoptPq r.1 obs) (showNatList (sortNat r.2)) (some (.rm ids ir))
        | _, _, _ => (st, badCase "rm")
      | "len", [] => fin st.model (toString st.model.pq.length) none
      | "iter", [] => fin st.model (showNatList (sortNat (st.model.items.map (·.opts.rid)))) none
      | _, _ => (st, badCase "op")
  | [] => (st, badCase "empty")

def main : IO Unit := runState (⟨newQ 0 0, newQ 0 0, false⟩ : St) handle
end ZoektModel.C30
