/-
C01 — the distance iterator yields exactly the aligned postings, in increasing order (soundness + minimality on top of
the completeness lemmas of IterLemmas.lean); size lemmas used for the fuel arguments.
-/
import ZoektModel.C01.IterLemmas
namespace ZoektModel.C01

/-! ### `first` is the head of one of the lists -/

theorem foldl_min_cases (b : Basic) : ∀ (r : Nat),
    b.foldl (fun r l => min r (headOr l)) r = r ∨
    ∃ l, l ∈ b ∧ headOr l = b.foldl (fun r l => min r (headOr l)) r := by
  induction b with
  | nil => intro r; exact Or.inl rfl
  | cons l t ih =>
    intro r
    simp only [List.foldl_cons]
    rcases ih (min r (headOr l)) with h | ⟨l', hl', h⟩
    · rw [h]
      by_cases hm : r ≤ headOr l
      · left; exact Nat.min_eq_left hm
      · right; exact ⟨l, List.mem_cons_self, (Nat.min_eq_right (by omega)).symm⟩
    · right; exact ⟨l', List.mem_cons_of_mem _ hl', h⟩

theorem Basic.first_head (b : Basic) (h : b.first ≠ maxU32) : ∃ l t, l ∈ b ∧ l = b.first :: t := by
  have key : b.first = maxU32 ∨ ∃ l, l ∈ b ∧ headOr l = b.first := foldl_min_cases b maxU32
  rcases key with h1 | ⟨l, hl, h1⟩
  · exact absurd h1 h
  · cases l with
    | nil => exact absurd h1.symm h
    | cons a t =>
      have e : a = b.first := h1
      exact ⟨a :: t, t, hl, by rw [e]⟩

theorem Basic.first_mem (b : Basic) (h : b.first ≠ maxU32) : b.mem b.first := by
  obtain ⟨l, t, hl, e⟩ := b.first_head h
  exact ⟨l, hl, by rw [e]; exact List.mem_cons_self⟩

theorem Basic.first_next_max (b : Basic) : (b.next maxU32).first = maxU32 := by
  simp only [Basic.next, if_true, Basic.first]
  induction b with
  | nil => rfl
  | cons l t ih => simp only [List.map_cons, List.foldl_cons, headOr, Nat.min_self]; exact ih

theorem Basic.next_max_mem (b : Basic) (p : Nat) : ¬ (b.next maxU32).mem p := by
  intro ⟨l, hl, hp⟩
  simp only [Basic.next, if_true, List.mem_map] at hl
  obtain ⟨_, _, e⟩ := hl; subst e; simp at hp

/-! ### everything left after `next(limit)` is beyond the limit -/

theorem mem_dropLE_gt (limit : Nat) (l : Postings) (hs : SortedL l) (p : Nat) (hp : p ∈ dropLE limit l) : limit < p := by
  induction l with
  | nil => simp [dropLE] at hp
  | cons a t ih =>
    simp only [dropLE] at hp
    by_cases ha : a ≤ limit
    · simp only [ha, if_true] at hp; exact ih (List.pairwise_cons.mp hs).2 hp
    · simp only [ha, if_false] at hp
      rcases List.mem_cons.mp hp with h | h
      · omega
      · have := (List.pairwise_cons.mp hs).1 p h; omega

theorem Basic.mem_next_gt (b : Basic) (hs : b.Sorted) (limit p : Nat) (hl : limit ≠ maxU32)
    (hp : (b.next limit).mem p) : limit < p := by
  obtain ⟨l, hl1, hl2⟩ := hp
  simp only [Basic.next, hl, if_false, List.mem_map] at hl1
  obtain ⟨l0, h0, e⟩ := hl1; subst e
  exact mem_dropLE_gt limit l0 (hs l0 h0) p hl2

/-! ### sizes -/

theorem dropLE_length_le (limit : Nat) (l : Postings) : (dropLE limit l).length ≤ l.length := by
  induction l with
  | nil => simp [dropLE]
  | cons a t ih =>
    simp only [dropLE]
    by_cases ha : a ≤ limit
    · simp only [ha, if_true, List.length_cons]; omega
    · simp only [ha, if_false]; exact Nat.le_refl _

theorem Basic.size_next_le (b : Basic) (limit : Nat) : (b.next limit).size ≤ b.size := by
  simp only [Basic.next, Basic.size]
  by_cases h : limit = maxU32
  · simp only [h, if_true]
    induction b with
    | nil => simp
    | cons l t ih => simp only [List.map_cons, List.sum_cons, List.length_nil] at ih ⊢; omega
  · simp only [h, if_false]
    induction b with
    | nil => simp
    | cons l t ih =>
      simp only [List.map_cons, List.sum_cons] at ih ⊢
      have := dropLE_length_le limit l; omega

theorem Basic.size_next_lt (b : Basic) (limit a : Nat) (t : Postings) (hl : (a :: t) ∈ b) (ha : a ≤ limit) :
    (b.next limit).size < b.size := by
  induction b with
  | nil => simp at hl
  | cons l rest ih =>
    have hrest := Basic.size_next_le rest limit
    rcases List.mem_cons.mp hl with h | h
    · subst h
      simp only [Basic.next, Basic.size] at hrest ⊢
      by_cases hm : limit = maxU32
      · simp only [hm, if_true, List.map_cons, List.sum_cons, List.length_nil, List.length_cons] at hrest ⊢; omega
      · simp only [hm, if_false, List.map_cons, List.sum_cons, dropLE, ha, if_true, List.length_cons] at hrest ⊢
        have := dropLE_length_le limit t; omega
    · have i := ih h
      simp only [Basic.next, Basic.size] at i ⊢
      by_cases hm : limit = maxU32
      · simp only [hm, if_true, List.map_cons, List.sum_cons, List.length_nil] at i ⊢; omega
      · simp only [hm, if_false, List.map_cons, List.sum_cons] at i ⊢
        have := dropLE_length_le limit l; omega

/-- dropping up to (at least) the current head shrinks the iterator -/
theorem Basic.size_next_first_lt (b : Basic) (limit : Nat) (h : b.first ≠ maxU32) (hle : b.first ≤ limit) :
    (b.next limit).size < b.size := by
  obtain ⟨l, t, hl, e⟩ := b.first_head h
  subst e
  exact b.size_next_lt limit b.first t hl hle

def Dist.size (it : Dist) : Nat := it.i1.size + it.i2.size

/-! ### `findNext`: subset, size, and the settled head -/

theorem Dist.findNext_props : ∀ (fuel : Nat) (it : Dist), it.WF →
    (Dist.findNext fuel it).d = it.d ∧ (Dist.findNext fuel it).started = it.started ∧
    (Dist.findNext fuel it).size ≤ it.size ∧
    (∀ q, (Dist.findNext fuel it).i1.mem q → it.i1.mem q) ∧
    (∀ q, (Dist.findNext fuel it).i2.mem q → it.i2.mem q) ∧
    (it.size < fuel →
      (Dist.findNext fuel it).i1.first = maxU32 ∨
      ((Dist.findNext fuel it).i1.first + it.d = (Dist.findNext fuel it).i2.first ∧
        (Dist.findNext fuel it).i2.first ≠ maxU32)) := by
  intro fuel
  induction fuel with
  | zero =>
    intro it _
    simp only [Dist.findNext]
    exact ⟨trivial, trivial, Nat.le_refl _, fun _ h => h, fun _ h => h, fun h => by omega⟩
  | succ fuel ih =>
    intro it hw
    simp only [Dist.findNext]
    by_cases hs : it.i1.first = maxU32 ∨ it.i2.first = maxU32
    · simp only [hs, if_true]
      refine ⟨trivial, trivial, ?_, fun q h => absurd h (it.i1.next_max_mem q), fun _ h => h, fun _ => Or.inl it.i1.first_next_max⟩
      have := it.i1.size_next_le maxU32
      simp only [Dist.size]; omega
    · simp only [hs, if_false]
      have hs1 : it.i1.first ≠ maxU32 := fun h => hs (Or.inl h)
      have hs2 : it.i2.first ≠ maxU32 := fun h => hs (Or.inr h)
      by_cases h1 : it.i1.first + it.d < it.i2.first
      · simp only [h1, if_true]
        have hlt := it.i1.size_next_first_lt (it.i2.first - it.d - 1) hs1 (by omega)
        obtain ⟨r1, r2, r3, r4, r5, r6⟩ := ih { it with i1 := it.i1.next (it.i2.first - it.d - 1) }
          ⟨it.i1.next_sorted _ hw.s1, hw.s2, it.i1.next_bounded _ hw.b1, hw.b2⟩
        refine ⟨r1, r2, ?_, fun q h => it.i1.next_subset _ q (r4 q h), r5, fun hf => r6 ?_⟩
        · simp only [Dist.size] at r3 ⊢; omega
        · simp only [Dist.size] at hf ⊢; omega
      · simp only [h1, if_false]
        by_cases h2 : it.i1.first + it.d > it.i2.first
        · simp only [h2, if_true]
          have hlt := it.i2.size_next_first_lt (it.i1.first + it.d - 1) hs2 (by omega)
          obtain ⟨r1, r2, r3, r4, r5, r6⟩ := ih { it with i2 := it.i2.next (it.i1.first + it.d - 1) }
            ⟨hw.s1, it.i2.next_sorted _ hw.s2, hw.b1, it.i2.next_bounded _ hw.b2⟩
          refine ⟨r1, r2, ?_, r4, fun q h => it.i2.next_subset _ q (r5 q h), fun hf => r6 ?_⟩
          · simp only [Dist.size] at r3 ⊢; omega
          · simp only [Dist.size] at hf ⊢; omega
        · simp only [h2, if_false]
          exact ⟨trivial, trivial, Nat.le_refl _, fun _ h => h, fun _ h => h, fun _ => Or.inr ⟨by omega, hs2⟩⟩

/-- **`findNext` settles on the minimum aligned posting** (or exhausts the iterator when there is none) -/
theorem Dist.findNext_min (it : Dist) (hw : it.WF) (fuel : Nat) (hf : it.size < fuel) :
    ((Dist.findNext fuel it).i1.first = maxU32 ∧ ∀ q, ¬ it.Aligned q) ∨
    (it.Aligned (Dist.findNext fuel it).i1.first ∧ ∀ q, it.Aligned q → (Dist.findNext fuel it).i1.first ≤ q) := by
  obtain ⟨r1, _, _, r4, r5, r6⟩ := Dist.findNext_props fuel it hw
  have hc := fun q hq => Dist.findNext_complete fuel it hw q hq
  by_cases hm : (Dist.findNext fuel it).i1.first = maxU32
  · left
    refine ⟨hm, fun q hq => ?_⟩
    obtain ⟨w, a, _⟩ := hc q hq
    have := (Dist.findNext fuel it).i1.first_le w.s1 q a.1
    have := hw.b1 q hq.1
    omega
  · right
    have hboth : (Dist.findNext fuel it).i1.first + it.d = (Dist.findNext fuel it).i2.first ∧
        (Dist.findNext fuel it).i2.first ≠ maxU32 := by
      rcases r6 hf with h | h
      · exact absurd h hm
      · exact h
    have hset := hboth.1
    have hm2 := hboth.2
    refine ⟨⟨r4 _ ((Dist.findNext fuel it).i1.first_mem hm), ?_⟩, fun q hq => ?_⟩
    · rw [hset]; exact r5 _ ((Dist.findNext fuel it).i2.first_mem hm2)
    · obtain ⟨w, a, _⟩ := hc q hq
      exact (Dist.findNext fuel it).i1.first_le w.s1 q a.1


/-! ### the `hitIterator` interface: `first` is the minimum of what is left, `next(limit)` removes exactly the postings `≤ limit` -/

/-- the head of the distance iterator is aligned, or the iterator is exhausted (state after any `findNext`) -/
def Dist.Settled (x : Dist) : Prop :=
  x.i1.first = maxU32 ∨ (x.i1.first + x.d = x.i2.first ∧ x.i2.first ≠ maxU32)

/-- what a hit iterator still holds: the postings of a merged trigram iterator, the aligned pairs of a distance iterator -/
def Hit.has : Hit → Nat → Prop
  | .basic b, q => b.mem q
  | .dist x, q => x.Aligned q

def Hit.WF : Hit → Prop
  | .basic b => b.Sorted ∧ b.Bounded
  | .dist x => x.WF ∧ (x.started = true → x.Settled)

theorem Dist.settled_spec (x : Dist) (hw : x.WF) (hs : x.Settled) :
    (x.i1.first = maxU32 ∧ ∀ q, ¬ x.Aligned q) ∨ (x.Aligned x.i1.first ∧ ∀ q, x.Aligned q → x.i1.first ≤ q) := by
  by_cases hm : x.i1.first = maxU32
  · left
    refine ⟨hm, fun q hq => ?_⟩
    have := x.i1.first_le hw.s1 q hq.1
    have := hw.b1 q hq.1
    omega
  · right
    rcases hs with h | ⟨h1, h2⟩
    · exact absurd h hm
    · refine ⟨⟨x.i1.first_mem hm, ?_⟩, fun q hq => x.i1.first_le hw.s1 q hq.1⟩
      rw [h1]; exact x.i2.first_mem h2

theorem Dist.findNext_wf : ∀ (fuel : Nat) (it : Dist), it.WF → (Dist.findNext fuel it).WF := by
  intro fuel
  induction fuel with
  | zero => intro it hw; exact hw
  | succ fuel ih =>
    intro it hw
    simp only [Dist.findNext]
    by_cases hs : it.i1.first = maxU32 ∨ it.i2.first = maxU32
    · simp only [hs, if_true]
      exact ⟨it.i1.next_sorted maxU32 hw.s1, hw.s2, it.i1.next_bounded maxU32 hw.b1, hw.b2⟩
    · simp only [hs, if_false]
      by_cases h1 : it.i1.first + it.d < it.i2.first
      · simp only [h1, if_true]
        exact ih { it with i1 := it.i1.next (it.i2.first - it.d - 1) }
          ⟨it.i1.next_sorted _ hw.s1, hw.s2, it.i1.next_bounded _ hw.b1, hw.b2⟩
      · simp only [h1, if_false]
        by_cases h2 : it.i1.first + it.d > it.i2.first
        · simp only [h2, if_true]
          exact ih { it with i2 := it.i2.next (it.i1.first + it.d - 1) }
            ⟨hw.s1, it.i2.next_sorted _ hw.s2, hw.b1, it.i2.next_bounded _ hw.b2⟩
        · simp only [h2, if_false]; exact hw

theorem Dist.findNext_aligned_iff (fuel : Nat) (it : Dist) (hw : it.WF) (q : Nat) :
    (Dist.findNext fuel it).Aligned q ↔ it.Aligned q := by
  obtain ⟨r1, _, _, r4, r5, _⟩ := Dist.findNext_props fuel it hw
  constructor
  · intro ⟨a, b⟩
    exact ⟨r4 q a, by rw [r1] at b; exact r5 _ b⟩
  · intro hq; exact (Dist.findNext_complete fuel it hw q hq).2.1

theorem Dist.findNext_settled (it : Dist) (hw : it.WF) (fuel : Nat) (hf : it.size < fuel) :
    (Dist.findNext fuel it).Settled := by
  obtain ⟨r1, _, _, _, _, r6⟩ := Dist.findNext_props fuel it hw
  unfold Dist.Settled
  rw [r1]
  exact r6 hf

def Hit.size' : Hit → Nat
  | .basic b => b.size
  | .dist x => x.size

theorem Hit.size_eq (h : Hit) : h.size = h.size' := by
  cases h <;> rfl

/-- **`first()`**: returns the minimum of what the iterator holds (or the sentinel when it holds nothing) and loses nothing -/
theorem Hit.first_spec (h : Hit) (hw : h.WF) :
    h.first.2.WF ∧ (∀ q, h.first.2.has q ↔ h.has q) ∧ h.first.2.size ≤ h.size ∧
    ((h.first.1 = maxU32 ∧ ∀ q, ¬ h.has q) ∨ (h.has h.first.1 ∧ ∀ q, h.has q → h.first.1 ≤ q)) := by
  cases h with
  | basic b =>
    have e : (Hit.basic b).first = (b.first, Hit.basic b) := rfl
    rw [e]
    have hw' : b.Sorted ∧ b.Bounded := hw
    refine ⟨hw, fun _ => Iff.rfl, Nat.le_refl _, ?_⟩
    by_cases hm : b.first = maxU32
    · left
      refine ⟨hm, fun q hq => ?_⟩
      have hq' : b.mem q := hq
      have := b.first_le hw'.1 q hq'
      have := hw'.2 q hq'
      omega
    · right; exact ⟨b.first_mem hm, fun q hq => b.first_le hw'.1 q hq⟩
  | dist x =>
    have hx : x.WF := hw.1
    have hst : x.started = true → x.Settled := hw.2
    by_cases hs : x.started = true
    · have e : (Hit.dist x).first = (x.i1.first, Hit.dist x) := by simp [Hit.first, hs]
      rw [e]
      exact ⟨hw, fun _ => Iff.rfl, Nat.le_refl _, x.settled_spec hx (hst hs)⟩
    · have e : (Hit.dist x).first =
          ((Dist.findNext x.fuel x).i1.first, Hit.dist { Dist.findNext x.fuel x with started := true }) := by
        simp [Hit.first, hs]
      rw [e]
      have hsett := Dist.findNext_settled x hx x.fuel (by simp only [Dist.fuel, Dist.size]; omega)
      have hwf := Dist.findNext_wf x.fuel x hx
      obtain ⟨r1, _, r3, _, _, _⟩ := Dist.findNext_props x.fuel x hx
      have hiff := fun q => Dist.findNext_aligned_iff x.fuel x hx q
      refine ⟨⟨⟨hwf.s1, hwf.s2, hwf.b1, hwf.b2⟩, fun _ => hsett⟩, fun q => hiff q, r3, ?_⟩
      rcases (Dist.findNext x.fuel x).settled_spec hwf hsett with ⟨a, b⟩ | ⟨a, b⟩
      · left; exact ⟨a, fun q hq => b q ((hiff q).mpr hq)⟩
      · right; exact ⟨(hiff _).mp a, fun q hq => b q ((hiff q).mpr hq)⟩

/-- **`next(limit)`**: removes exactly the postings `≤ limit` -/
theorem Hit.next_spec (h : Hit) (hw : h.WF) (limit : Nat) (hl : limit ≠ maxU32) :
    (h.next limit).WF ∧ (∀ q, (h.next limit).has q ↔ (h.has q ∧ limit < q)) ∧ (h.next limit).size ≤ h.size := by
  cases h with
  | basic b =>
    have e : (Hit.basic b).next limit = Hit.basic (b.next limit) := rfl
    rw [e]
    have hw' : b.Sorted ∧ b.Bounded := hw
    refine ⟨⟨b.next_sorted _ hw'.1, b.next_bounded _ hw'.2⟩, fun q => ⟨fun hq => ?_, fun hq => ?_⟩, b.size_next_le _⟩
    · exact ⟨b.next_subset _ q hq, b.mem_next_gt hw'.1 limit q hl hq⟩
    · exact b.mem_next limit q hq.1 hq.2 hl
  | dist x =>
    have hx : x.WF := hw.1
    obtain ⟨y, hyd, hy1, hy2, he⟩ : ∃ y : Dist, y.d = x.d ∧ y.i1 = x.i1.next limit ∧
        y.i2 = x.i2.next (if limit + x.d > maxU32 then maxU32 else limit + x.d) ∧
        (Hit.dist x).next limit = Hit.dist (Dist.findNext y.fuel y) :=
      ⟨⟨x.i1.next limit, x.i2.next (if limit + x.d > maxU32 then maxU32 else limit + x.d), x.d, x.started⟩,
        rfl, rfl, rfl, rfl⟩
    rw [he]
    have hwy : y.WF := by
      refine ⟨?_, ?_, ?_, ?_⟩
      · rw [hy1]; exact x.i1.next_sorted _ hx.s1
      · rw [hy2]; exact x.i2.next_sorted _ hx.s2
      · rw [hy1]; exact x.i1.next_bounded _ hx.b1
      · rw [hy2]; exact x.i2.next_bounded _ hx.b2
    have hsett := Dist.findNext_settled y hwy y.fuel (by simp only [Dist.fuel, Dist.size]; omega)
    have hwf := Dist.findNext_wf y.fuel y hwy
    obtain ⟨_, _, r3, _, _, _⟩ := Dist.findNext_props y.fuel y hwy
    refine ⟨⟨hwf, fun _ => hsett⟩, fun q => ?_, ?_⟩
    · show (Dist.findNext y.fuel y).Aligned q ↔ (x.Aligned q ∧ limit < q)
      rw [Dist.findNext_aligned_iff y.fuel y hwy q]
      simp only [Dist.Aligned, hyd, hy1, hy2]
      constructor
      · intro ⟨a, b⟩
        exact ⟨⟨x.i1.next_subset _ q a, x.i2.next_subset _ _ b⟩, x.i1.mem_next_gt hx.s1 limit q hl a⟩
      · intro ⟨⟨a, b⟩, c⟩
        have hb2 := hx.b2 _ b
        have hov : ¬ (limit + x.d > maxU32) := by omega
        simp only [hov, if_false]
        exact ⟨x.i1.mem_next limit q a c hl, x.i2.mem_next _ _ b (by omega) (by omega)⟩
    · show (Dist.findNext y.fuel y).i1.size + (Dist.findNext y.fuel y).i2.size ≤ x.i1.size + x.i2.size
      have a := x.i1.size_next_le limit
      have b := x.i2.size_next_le (if limit + x.d > maxU32 then maxU32 else limit + x.d)
      simp only [Dist.size, hy1, hy2] at r3
      omega

/-- drive the iterator with a sequence of `next(limit)` calls -/
def Hit.runNext (h : Hit) : List Nat → Hit
  | [] => h
  | l :: ls => (h.next l).runNext ls

theorem Hit.runNext_spec (limits : List Nat) : ∀ (h : Hit), h.WF → (∀ l, l ∈ limits → l ≠ maxU32) →
    (h.runNext limits).WF ∧ ∀ q, (h.runNext limits).has q ↔ (h.has q ∧ ∀ l, l ∈ limits → l < q) := by
  induction limits with
  | nil => intro h hw _; exact ⟨hw, fun q => by simp [Hit.runNext]⟩
  | cons l ls ih =>
    intro h hw hl
    obtain ⟨w1, i1, _⟩ := h.next_spec hw l (hl l List.mem_cons_self)
    obtain ⟨w2, i2⟩ := ih (h.next l) w1 (fun x hx => hl x (List.mem_cons_of_mem _ hx))
    refine ⟨w2, fun q => ?_⟩
    simp only [Hit.runNext]
    rw [i2 q, i1 q]
    constructor
    · intro ⟨⟨a, b⟩, c⟩
      exact ⟨a, fun x hx => by rcases List.mem_cons.mp hx with e | e; (subst e; exact b); exact c x e⟩
    · intro ⟨a, b⟩
      exact ⟨⟨a, b l List.mem_cons_self⟩, fun x hx => b x (List.mem_cons_of_mem _ hx)⟩

end ZoektModel.C01
