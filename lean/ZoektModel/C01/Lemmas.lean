/-
C01 — lemmas about the engine model. Part 1: staged (cost-levelled, cached) evaluation computes the plain value.
-/
import ZoektModel.C01.Spec
namespace ZoektModel.C01

/-! ## plain value of a prepared tree on the current document -/

/-- the candidates of a substring leaf that pass `matchContent` -/
def Sub.verified (ctx : Ctx) (doc : Nat) (s : Sub) : List Nat :=
  if s.contEvaluated then s.current
  else s.current.filter (fun off => matchAt s.caseSens s.pat (ctx.text s.fileName doc) off)

def Sub.val (ctx : Ctx) (doc : Nat) (s : Sub) : Bool := !(s.verified ctx doc).isEmpty

/-- once `contEvaluated`, `current` holds verified candidates only -/
def Sub.Good (ctx : Ctx) (doc : Nat) (s : Sub) : Prop :=
  s.contEvaluated = true → ∀ o ∈ s.current, matchAt s.caseSens s.pat (ctx.text s.fileName doc) o = true

/-- verified candidate list of a child that is a content substring leaf -/
def MT.lc (ctx : Ctx) (doc : Nat) : MT → Option (List Nat)
  | .sub s => if s.fileName then Option.none else some (s.verified ctx doc)
  | _ => Option.none

/-- what the same-line check sees once every child is evaluated -/
def MTs.lineCands (ctx : Ctx) (doc : Nat) : MTs → Option (List (List Nat))
  | .nil => some []
  | .cons h t =>
    match h.lc ctx doc with
    | Option.none => Option.none
    | some l => (MTs.lineCands ctx doc t).map (l :: ·)

mutual
/-- the plain (unstaged, uncached) value of a prepared tree on document `doc` -/
def MT.val (ctx : Ctx) (doc : Nat) : MT → Bool
  | .doc _ bits _ id => bits.getD id false
  | .brute _ _ => true
  | .none => false
  | .re _ _ bits _ id _ _ => bits.getD id false
  | .sub s => s.val ctx doc
  | .and _ ch => MTs.valAll ctx doc ch
  | .andLine _ _ ch => MTs.valAll ctx doc ch && decide (sameLineOf ctx doc (MTs.lineCands ctx doc ch) = St.found)
  | .or _ ch => MTs.valAny ctx doc ch
  | .not _ c => !(c.val ctx doc)
  | .fileName _ c => c.val ctx doc
  | .boost _ c => c.val ctx doc
  | .noVisit c => c.val ctx doc
def MTs.valAll (ctx : Ctx) (doc : Nat) : MTs → Bool
  | .nil => true
  | .cons h t => h.val ctx doc && MTs.valAll ctx doc t
def MTs.valAny (ctx : Ctx) (doc : Nat) : MTs → Bool
  | .nil => false
  | .cons h t => h.val ctx doc || MTs.valAny ctx doc t
end

/-- a `known` entry, if present, is the plain value -/
def KOk (k : Option Bool) (v : Bool) : Prop := ∀ b, k = some b → b = v

mutual
/-- consistency of the mutable state of a tree with the plain value (holds after `prepare`, kept by `eval`) -/
def MT.Good (ctx : Ctx) (doc : Nat) : MT → Prop
  | .doc _ _ _ _ => True
  | .brute _ _ => True
  | .none => True
  | .re _ _ bits _ id ev fo => ev = true → fo = bits.getD id false
  | .sub s => s.Good ctx doc
  | .and k ch => KOk k (MTs.valAll ctx doc ch) ∧ MTs.GoodAll ctx doc ch
  | .andLine k kin ch =>
    KOk k (MTs.valAll ctx doc ch && decide (sameLineOf ctx doc (MTs.lineCands ctx doc ch) = St.found)) ∧
    KOk kin (MTs.valAll ctx doc ch) ∧ MTs.GoodAll ctx doc ch ∧ (k = Option.none → kin = Option.none)
  | .or k ch => KOk k (MTs.valAny ctx doc ch) ∧ MTs.GoodAll ctx doc ch
  | .not k c => KOk k (!(c.val ctx doc)) ∧ c.Good ctx doc
  | .fileName k c => KOk k (c.val ctx doc) ∧ c.Good ctx doc
  | .boost k c => KOk k (c.val ctx doc) ∧ c.Good ctx doc
  | .noVisit c => c.Good ctx doc
def MTs.GoodAll (ctx : Ctx) (doc : Nat) : MTs → Prop
  | .nil => True
  | .cons h t => h.Good ctx doc ∧ MTs.GoodAll ctx doc t
end

/-- what one `evalMatchTree` call guarantees about its answer -/
def Post (cost : Nat) (v : Bool) (st : St) : Prop :=
  (st ≠ St.higher → st = St.pred v) ∧ (costRegexp ≤ cost → st ≠ St.higher)

theorem pred_ne_higher (b : Bool) : St.pred b ≠ St.higher := by
  cases b <;> simp [St.pred]

theorem post_pred (cost : Nat) (v : Bool) : Post cost v (St.pred v) :=
  ⟨fun _ => rfl, fun _ => pred_ne_higher v⟩


theorem Sub.matches_spec (ctx : Ctx) (doc cost : Nat) (s : Sub) (h : s.Good ctx doc) :
    (s.matches ctx doc cost).2.Good ctx doc ∧
    (s.matches ctx doc cost).2.verified ctx doc = s.verified ctx doc ∧
    (s.matches ctx doc cost).2.fileName = s.fileName ∧
    Post cost (s.val ctx doc) (s.matches ctx doc cost).1 ∧
    ((s.matches ctx doc cost).1 = St.found →
      (s.matches ctx doc cost).2.current = (s.matches ctx doc cost).2.verified ctx doc) := by
  by_cases h1 : s.contEvaluated = true
  · have e : s.matches ctx doc cost = (St.pred (!s.current.isEmpty), s) := by simp [Sub.matches, h1]
    rw [e]
    refine ⟨h, rfl, rfl, ?_, ?_⟩
    · have : s.val ctx doc = !s.current.isEmpty := by simp [Sub.val, Sub.verified, h1]
      rw [this]; exact post_pred _ _
    · intro _; simp [Sub.verified, h1]
  · have h1' : s.contEvaluated = false := by simpa using h1
    by_cases h2 : s.current.isEmpty = true
    · have e : s.matches ctx doc cost = (St.none, s) := by simp [Sub.matches, h1', h2]
      rw [e]
      refine ⟨h, rfl, rfl, ⟨?_, ?_⟩, ?_⟩
      · intro _
        have : s.current = [] := by simpa using h2
        simp [Sub.val, Sub.verified, h1', this, St.pred]
      · intro _; simp
      · intro hf; simp at hf
    · have h2' : s.current.isEmpty = false := by simpa using h2
      by_cases h3 : (s.fileName && decide (cost < costMemory)) = true
      · have e : s.matches ctx doc cost = (St.higher, s) := by simp [Sub.matches, h1', h2', h3]
        rw [e]
        refine ⟨h, rfl, rfl, ⟨fun hn => absurd rfl hn, ?_⟩, ?_⟩
        · intro hc; rw [Bool.and_eq_true] at h3; have h5 := of_decide_eq_true h3.2; unfold costMemory at h5; unfold costRegexp at hc; omega
        · intro hf; simp at hf
      · have h3' : (s.fileName && decide (cost < costMemory)) = false := by simpa using h3
        by_cases h4 : (!s.fileName && decide (cost < costContent)) = true
        · have e : s.matches ctx doc cost = (St.higher, s) := by simp [Sub.matches, h1', h2', h3', h4]
          rw [e]
          refine ⟨h, rfl, rfl, ⟨fun hn => absurd rfl hn, ?_⟩, ?_⟩
          · intro hc; rw [Bool.and_eq_true] at h4; have h5 := of_decide_eq_true h4.2; unfold costContent at h5; unfold costRegexp at hc; omega
          · intro hf; simp at hf
        · have h4' : (!s.fileName && decide (cost < costContent)) = false := by simpa using h4
          have e : s.matches ctx doc cost =
              (St.pred (!(s.current.filter (fun off => matchAt s.caseSens s.pat (ctx.text s.fileName doc) off)).isEmpty),
               { s with current := s.current.filter (fun off => matchAt s.caseSens s.pat (ctx.text s.fileName doc) off),
                        contEvaluated := true }) := by
            simp [Sub.matches, h1', h2', h3', h4']
          rw [e]
          refine ⟨?_, ?_, rfl, ?_, ?_⟩
          · intro _ o ho
            simp only [List.mem_filter] at ho
            exact ho.2
          · simp [Sub.verified, h1']
          · have : s.val ctx doc = !(s.current.filter (fun off => matchAt s.caseSens s.pat (ctx.text s.fileName doc) off)).isEmpty := by
              simp [Sub.val, Sub.verified, h1']
            rw [this]; exact post_pred _ _
          · intro _; simp [Sub.verified]


/-- the new `known` entry written by `evalMatchTree` is consistent -/
theorem kok_of_post {cost : Nat} {v : Bool} {st : St} (h : Post cost v st) :
    KOk (if st = St.higher then Option.none else some (decide (st = St.found))) v := by
  intro b hb
  by_cases hs : st = St.higher
  · simp [hs] at hb
  · simp only [hs, if_false, Option.some.injEq] at hb
    have := h.1 hs
    subst hb
    cases v <;> simp [this, St.pred]

structure EvalOK (ctx : Ctx) (doc cost : Nat) (t : MT) (r : St × MT) : Prop where
  good : r.2.Good ctx doc
  val : r.2.val ctx doc = t.val ctx doc
  lc : r.2.lc ctx doc = t.lc ctx doc
  post : Post cost (t.val ctx doc) r.1
  settled : r.1 = St.found → r.2.contentSub = r.2.lc ctx doc

structure AndOK (ctx : Ctx) (doc cost : Nat) (ch : MTs) (r : St × MTs) : Prop where
  good : MTs.GoodAll ctx doc r.2
  val : MTs.valAll ctx doc r.2 = MTs.valAll ctx doc ch
  lcs : MTs.lineCands ctx doc r.2 = MTs.lineCands ctx doc ch
  post : Post cost (MTs.valAll ctx doc ch) r.1
  settled : r.1 = St.found → MTs.contentSubs r.2 = MTs.lineCands ctx doc r.2

structure OrOK (ctx : Ctx) (doc cost : Nat) (ch : MTs) (r : St × MTs) : Prop where
  good : MTs.GoodAll ctx doc r.2
  val : MTs.valAny ctx doc r.2 = MTs.valAny ctx doc ch
  post : Post cost (MTs.valAny ctx doc ch) r.1

/-- a node that is not a substring leaf: nothing for the same-line check -/
theorem evalok_of_nonleaf (ctx : Ctx) (doc cost : Nat) (t t' : MT) (st : St)
    (hg : t'.Good ctx doc) (hv : t'.val ctx doc = t.val ctx doc) (hp : Post cost (t.val ctx doc) st)
    (h1 : t.lc ctx doc = Option.none) (h2 : t'.lc ctx doc = Option.none) (h3 : t'.contentSub = Option.none) :
    EvalOK ctx doc cost t (st, t') :=
  ⟨hg, hv, by rw [h1, h2], hp, fun _ => by rw [h2, h3]⟩


theorem post_of_eq {cost : Nat} {v : Bool} {st : St} (h : st = St.pred v) : Post cost v st := by
  subst h; exact post_pred _ _

theorem sameLineOf_pred (ctx : Ctx) (doc : Nat) (o : Option (List (List Nat))) :
    sameLineOf ctx doc o = St.pred (decide (sameLineOf ctx doc o = St.found)) := by
  cases o with
  | none => simp [sameLineOf, St.pred]
  | some c =>
    have key : ∀ b : Bool, St.pred b = St.pred (decide (St.pred b = St.found)) := by
      intro b; cases b <;> simp [St.pred]
    simp only [sameLineOf]
    exact key _

theorem sameLine_ne_higher (ctx : Ctx) (doc : Nat) (ch : MTs) : sameLine ctx doc ch ≠ St.higher := by
  unfold sameLine
  rw [sameLineOf_pred]
  exact pred_ne_higher _

theorem post_not {cost : Nat} {v : Bool} {sc : St} (h : Post cost v sc) :
    Post cost (!v) sc.neg := by
  obtain ⟨h1, h2⟩ := h
  cases sc with
  | higher => exact ⟨fun hn => absurd rfl hn, fun hc => absurd rfl (h2 hc)⟩
  | found =>
    have := h1 (by simp)
    cases v <;> simp [St.pred] at this
    exact ⟨fun _ => by simp [St.pred, St.neg], fun _ => by simp [St.neg]⟩
  | none =>
    have := h1 (by simp)
    cases v <;> simp [St.pred] at this
    exact ⟨fun _ => by simp [St.pred, St.neg], fun _ => by simp [St.neg]⟩

mutual
theorem MT.eval_spec (ctx : Ctx) (doc cost : Nat) :
    (t : MT) → t.Good ctx doc → EvalOK ctx doc cost t (t.eval ctx doc cost)
  | .doc br bits fd id, _ => by
    simp only [MT.eval]
    exact evalok_of_nonleaf ctx doc cost _ _ _ trivial rfl (post_pred _ _) rfl rfl rfl
  | .brute fd id, _ => by
    simp only [MT.eval]
    exact evalok_of_nonleaf ctx doc cost _ _ _ trivial rfl (by simpa [MT.val, St.pred] using post_pred cost true) rfl rfl rfl
  | .none, _ => by
    simp only [MT.eval]
    exact evalok_of_nonleaf ctx doc cost _ _ _ trivial rfl (by simpa [MT.val, St.pred] using post_pred cost false) rfl rfl rfl
  | .re w f bits fd id ev fo, h => by
    simp only [MT.eval]
    by_cases hev : ev = true
    · simp only [hev, if_true]
      have : fo = bits.getD id false := h hev
      refine evalok_of_nonleaf ctx doc cost _ _ _ (by simpa [MT.Good, hev] using this) rfl ?_ rfl rfl rfl
      simp only [MT.val]; rw [this]; exact post_pred _ _
    · have hev' : ev = false := by simpa using hev
      simp only [hev', Bool.false_eq_true, if_false]
      by_cases hc : cost < costRegexp
      · simp only [hc, if_true]
        refine evalok_of_nonleaf ctx doc cost _ _ _ (by simp [MT.Good]) rfl ⟨fun hn => absurd rfl hn, fun h3 => by omega⟩ rfl rfl rfl
      · simp only [hc, if_false]
        exact evalok_of_nonleaf ctx doc cost _ _ _ (by simp [MT.Good]) rfl (post_pred _ _) rfl rfl rfl
  | .sub s, h => by
    simp only [MT.eval]
    obtain ⟨h1, h2, h3, h4, h5⟩ := Sub.matches_spec ctx doc cost s h
    refine ⟨h1, ?_, ?_, h4, ?_⟩
    · simp only [MT.val, Sub.val, h2]
    · simp only [MT.lc, h2, h3]
    · intro hf
      simp only [MT.contentSub, MT.lc]
      split
      · rfl
      · rw [h5 hf]
  | .and k ch, h => by
    simp only [MT.eval]
    cases k with
    | some v =>
      have hv : v = MTs.valAll ctx doc ch := h.1 v rfl
      refine evalok_of_nonleaf ctx doc cost _ _ _ h rfl ?_ rfl rfl rfl
      simp only [MT.val]; rw [hv]; exact post_pred _ _
    | none =>
      have r := MTs.evalAnd_spec ctx doc cost ch h.2
      refine evalok_of_nonleaf ctx doc cost _ _ _ ⟨?_, r.good⟩ (by simp only [MT.val]; exact r.val) r.post rfl rfl rfl
      rw [r.val]; exact kok_of_post r.post
  | .andLine k kin ch, h => by
    simp only [MT.eval]
    cases k with
    | some v =>
      have hv := h.1 v rfl
      refine evalok_of_nonleaf ctx doc cost _ _ _ h rfl ?_ rfl rfl rfl
      simp only [MT.val]; rw [hv]; exact post_pred _ _
    | none =>
      have hkin : kin = Option.none := h.2.2.2 rfl
      subst hkin
      have r := MTs.evalAnd_spec ctx doc cost ch h.2.2.1
      generalize MTs.evalAnd ctx doc cost ch = rv at r
      obtain ⟨stl, ch'⟩ := rv
      obtain ⟨g, v, l, p, sd⟩ := r
      simp only at g v l p sd
      have hpost : Post cost (MT.val ctx doc (MT.andLine Option.none Option.none ch))
          (if stl = St.found then sameLine ctx doc ch' else stl) := by
        simp only [MT.val]
        by_cases hs : stl = St.found
        · simp only [hs, if_true]
          have hv : MTs.valAll ctx doc ch = true := by
            have := p.1 (by simp [hs])
            rw [hs] at this
            cases hh : MTs.valAll ctx doc ch <;> simp [hh, St.pred] at this ⊢
          have e : sameLine ctx doc ch' = sameLineOf ctx doc (MTs.lineCands ctx doc ch) := by
            simp only [sameLine, sd hs, l]
          rw [e, hv, Bool.true_and]
          exact post_of_eq (sameLineOf_pred ctx doc (MTs.lineCands ctx doc ch))
        · simp only [hs, if_false]
          refine ⟨fun hn => ?_, p.2⟩
          have := p.1 hn
          have hv : MTs.valAll ctx doc ch = false := by
            cases hh : MTs.valAll ctx doc ch
            · rfl
            · rw [hh] at this; simp [St.pred] at this; exact absurd this hs
          rw [this, hv]; simp
      refine evalok_of_nonleaf ctx doc cost _ _ _ ⟨?_, ?_, g, ?_⟩ ?_ hpost rfl rfl rfl
      · have := kok_of_post hpost
        simp only [MT.val] at this
        rw [v, l]; exact this
      · rw [v]; exact kok_of_post p
      · intro hk
        by_cases hs : stl = St.higher
        · simp [hs]
        · exfalso
          by_cases hf : stl = St.found
          · simp only [hf, if_true] at hk
            have hne := sameLine_ne_higher ctx doc ch'
            simp [hne] at hk
          · simp [hf, hs] at hk
      · simp only [MT.val, v, l]
  | .or k ch, h => by
    simp only [MT.eval]
    cases k with
    | some v =>
      have hv : v = MTs.valAny ctx doc ch := h.1 v rfl
      refine evalok_of_nonleaf ctx doc cost _ _ _ h rfl ?_ rfl rfl rfl
      simp only [MT.val]; rw [hv]; exact post_pred _ _
    | none =>
      have r := MTs.evalOr_spec ctx doc cost ch h.2
      refine evalok_of_nonleaf ctx doc cost _ _ _ ⟨?_, r.good⟩ (by simp only [MT.val]; exact r.val) r.post rfl rfl rfl
      rw [r.val]; exact kok_of_post r.post
  | .not k c, h => by
    simp only [MT.eval]
    cases k with
    | some v =>
      have hv := h.1 v rfl
      refine evalok_of_nonleaf ctx doc cost _ _ _ h rfl ?_ rfl rfl rfl
      simp only [MT.val]; rw [hv]; exact post_pred _ _
    | none =>
      have r := MT.eval_spec ctx doc cost c h.2
      have hp := post_not r.post
      refine evalok_of_nonleaf ctx doc cost _ _ _ ⟨?_, r.good⟩ (by simp only [MT.val]; rw [r.val]) hp rfl rfl rfl
      rw [r.val]; exact kok_of_post hp
  | .fileName k c, h => by
    simp only [MT.eval]
    cases k with
    | some v =>
      have hv := h.1 v rfl
      refine evalok_of_nonleaf ctx doc cost _ _ _ h rfl ?_ rfl rfl rfl
      simp only [MT.val]; rw [hv]; exact post_pred _ _
    | none =>
      have r := MT.eval_spec ctx doc cost c h.2
      refine evalok_of_nonleaf ctx doc cost _ _ _ ⟨?_, r.good⟩ (by simp only [MT.val]; rw [r.val]) r.post rfl rfl rfl
      rw [r.val]; exact kok_of_post r.post
  | .boost k c, h => by
    simp only [MT.eval]
    cases k with
    | some v =>
      have hv := h.1 v rfl
      refine evalok_of_nonleaf ctx doc cost _ _ _ h rfl ?_ rfl rfl rfl
      simp only [MT.val]; rw [hv]; exact post_pred _ _
    | none =>
      have r := MT.eval_spec ctx doc cost c h.2
      refine evalok_of_nonleaf ctx doc cost _ _ _ ⟨?_, r.good⟩ (by simp only [MT.val]; rw [r.val]) r.post rfl rfl rfl
      rw [r.val]; exact kok_of_post r.post
  | .noVisit c, h => by
    simp only [MT.eval]
    have r := MT.eval_spec ctx doc cost c h
    exact evalok_of_nonleaf ctx doc cost _ _ _ r.good (by simp only [MT.val]; rw [r.val]) r.post rfl rfl rfl
theorem MTs.evalAnd_spec (ctx : Ctx) (doc cost : Nat) :
    (ch : MTs) → MTs.GoodAll ctx doc ch → AndOK ctx doc cost ch (MTs.evalAnd ctx doc cost ch)
  | .nil, _ => by
    simp only [MTs.evalAnd]
    exact ⟨trivial, rfl, rfl, by simpa [MTs.valAll, St.pred] using post_pred cost true, fun _ => rfl⟩
  | .cons h t, hg => by
    have rh := MT.eval_spec ctx doc cost h hg.1
    have rt := MTs.evalAnd_spec ctx doc cost t hg.2
    simp only [MTs.evalAnd]
    generalize h.eval ctx doc cost = rhv at rh
    generalize MTs.evalAnd ctx doc cost t = rtv at rt
    obtain ⟨sh, h'⟩ := rhv
    obtain ⟨stl, t'⟩ := rtv
    obtain ⟨g1, v1, l1, p1, s1⟩ := rh
    obtain ⟨g2, v2, l2, p2, s2⟩ := rt
    simp only at g1 v1 l1 p1 s1 g2 v2 l2 p2 s2
    cases sh with
    | none =>
      simp only []
      have hv : h.val ctx doc = false := by
        have := p1.1 (by simp)
        cases hh : h.val ctx doc <;> simp [hh, St.pred] at this ⊢
      refine ⟨⟨g1, hg.2⟩, ?_, ?_, ⟨?_, fun _ => by simp⟩, fun hf => by simp at hf⟩
      · simp only [MTs.valAll, v1]
      · simp only [MTs.lineCands, l1]
      · intro _; simp [MTs.valAll, hv, St.pred]
    | higher =>
      simp only []
      refine ⟨⟨g1, g2⟩, ?_, ?_, ⟨?_, ?_⟩, ?_⟩
      · simp only [MTs.valAll, v1, v2]
      · simp only [MTs.lineCands, l1, l2]
      · intro hn
        by_cases hs : stl = St.none
        · have := p2.1 (by simp [hs])
          rw [hs] at this
          have hv : MTs.valAll ctx doc t = false := by
            cases hh : MTs.valAll ctx doc t <;> simp [hh, St.pred] at this ⊢
          simp [hs, MTs.valAll, hv, St.pred]
        · simp [hs] at hn
      · intro hc; exact absurd rfl (p1.2 hc)
      · intro hf
        by_cases hs : stl = St.none <;> simp [hs] at hf
    | found =>
      simp only []
      have hv : h.val ctx doc = true := by
        have := p1.1 (by simp)
        cases hh : h.val ctx doc <;> simp [hh, St.pred] at this ⊢
      refine ⟨⟨g1, g2⟩, ?_, ?_, ?_, ?_⟩
      · simp only [MTs.valAll, v1, v2]
      · simp only [MTs.lineCands, l1, l2]
      · simpa [MTs.valAll, hv] using p2
      · intro hf
        have hf' : stl = St.found := hf
        simp only [MTs.contentSubs, MTs.lineCands, s1 rfl, s2 hf']
        cases MT.lc ctx doc h' <;> rfl
theorem MTs.evalOr_spec (ctx : Ctx) (doc cost : Nat) :
    (ch : MTs) → MTs.GoodAll ctx doc ch → OrOK ctx doc cost ch (MTs.evalOr ctx doc cost ch)
  | .nil, _ => by
    simp only [MTs.evalOr]
    exact ⟨trivial, rfl, by simpa [MTs.valAny, St.pred] using post_pred cost false⟩
  | .cons h t, hg => by
    have rh := MT.eval_spec ctx doc cost h hg.1
    have rt := MTs.evalOr_spec ctx doc cost t hg.2
    simp only [MTs.evalOr]
    generalize h.eval ctx doc cost = rhv at rh
    generalize MTs.evalOr ctx doc cost t = rtv at rt
    obtain ⟨sh, h'⟩ := rhv
    obtain ⟨stl, t'⟩ := rtv
    obtain ⟨g1, v1, _, p1, _⟩ := rh
    obtain ⟨g2, v2, p2⟩ := rt
    simp only at g1 v1 p1 g2 v2 p2
    refine ⟨⟨g1, g2⟩, by simp only [MTs.valAny, v1, v2], ?_⟩
    simp only [MTs.valAny]
    obtain ⟨p1a, p1b⟩ := p1
    obtain ⟨p2a, p2b⟩ := p2
    cases sh <;> cases stl <;> simp only [] <;> refine ⟨?_, ?_⟩ <;> intro hq <;>
      first
      | exact absurd rfl hq
      | exact absurd rfl (p1b hq)
      | exact absurd rfl (p2b hq)
      | (have a1 := p1a (by simp); have a2 := p2a (by simp)
         cases hh : h.val ctx doc <;> cases hh2 : MTs.valAny ctx doc t <;> simp [hh, hh2, St.pred] at a1 a2 ⊢)
      | (have a1 := p1a (by simp)
         cases hh : h.val ctx doc <;> simp [hh, St.pred] at a1 ⊢)
      | simp
end


/-! ## `prepare` establishes the invariant; the cost loop decides, and decides the plain value -/

mutual
theorem MT.prepare_good (ctx : Ctx) (doc : Nat) : (t : MT) → (t.prepare doc).Good ctx doc
  | .doc _ _ _ _ => by simp [MT.prepare, MT.Good]
  | .brute _ _ => by simp [MT.prepare, MT.Good]
  | .none => by simp [MT.prepare, MT.Good]
  | .re _ _ _ _ _ _ _ => by simp [MT.prepare, MT.Good]
  | .sub s => by
    simp only [MT.prepare, MT.Good, Sub.Good, Sub.prepare]
    split <;> simp
  | .and _ ch => by
    simp only [MT.prepare, MT.Good]
    exact ⟨fun b hb => by simp at hb, MTs.prepare_good ctx doc ch⟩
  | .andLine _ _ ch => by
    simp only [MT.prepare, MT.Good]
    exact ⟨fun b hb => by simp at hb, fun b hb => by simp at hb, MTs.prepare_good ctx doc ch, fun _ => trivial⟩
  | .or _ ch => by
    simp only [MT.prepare, MT.Good]
    exact ⟨fun b hb => by simp at hb, MTs.prepare_good ctx doc ch⟩
  | .not _ c => by
    simp only [MT.prepare, MT.Good]
    exact ⟨fun b hb => by simp at hb, MT.prepare_good ctx doc c⟩
  | .fileName _ c => by
    simp only [MT.prepare, MT.Good]
    exact ⟨fun b hb => by simp at hb, MT.prepare_good ctx doc c⟩
  | .boost _ c => by
    simp only [MT.prepare, MT.Good]
    exact ⟨fun b hb => by simp at hb, MT.prepare_good ctx doc c⟩
  | .noVisit c => by
    simp only [MT.prepare, MT.Good]
    exact MT.prepare_good ctx doc c
theorem MTs.prepare_good (ctx : Ctx) (doc : Nat) : (ch : MTs) → MTs.GoodAll ctx doc (MTs.prepare doc ch)
  | .nil => by simp [MTs.prepare, MTs.GoodAll]
  | .cons h t => by
    simp only [MTs.prepare, MTs.GoodAll]
    exact ⟨MT.prepare_good ctx doc h, MTs.prepare_good ctx doc t⟩
end

/-- the cost loop from cost level `cost` with `n` levels to go (`cost + n = 4`, `n ≥ 1`) -/
theorem evalCosts_spec (ctx : Ctx) (doc : Nat) :
    ∀ (n cost : Nat) (t : MT) (acc : List St), t.Good ctx doc → cost + (n + 1) = 4 →
      (evalCosts ctx doc (n + 1) cost t acc).2.1 = some (t.val ctx doc) := by
  intro n
  induction n with
  | zero =>
    intro cost t acc hg hc
    have r := MT.eval_spec ctx doc cost t hg
    simp only [evalCosts]
    generalize t.eval ctx doc cost = rv at r
    obtain ⟨st, t'⟩ := rv
    obtain ⟨g, v, _, p, _⟩ := r
    simp only at g v p
    have hc3 : costRegexp ≤ cost := by simp only [costRegexp]; omega
    have hne := p.2 hc3
    have hp := p.1 hne
    cases st with
    | higher => exact absurd rfl hne
    | none =>
      simp only []
      cases hh : t.val ctx doc <;> simp [hh, St.pred] at hp ⊢
    | found =>
      simp only []
      cases hh : t.val ctx doc <;> simp [hh, St.pred, evalCosts] at hp ⊢
  | succ n ih =>
    intro cost t acc hg hc
    have r := MT.eval_spec ctx doc cost t hg
    rw [evalCosts]
    generalize t.eval ctx doc cost = rv at r
    obtain ⟨st, t'⟩ := rv
    obtain ⟨g, v, _, p, _⟩ := r
    simp only at g v p
    cases st with
    | higher =>
      have : cost ≠ costMax := by simp only [costMax]; omega
      simp only [this, if_false]
      rw [ih (cost + 1) t' _ g (by omega), v]
    | none =>
      simp only []
      have hp := p.1 (by simp)
      cases hh : t.val ctx doc <;> simp [hh, St.pred] at hp ⊢
    | found =>
      simp only []
      rw [ih (cost + 1) t' _ g (by omega), v]

/-- **staged evaluation is correct**: on a freshly prepared tree the cost loop of `Search` never reaches
    `log.Panicf("did not decide")` and its verdict is the plain value of the tree -/
theorem staged_eval (ctx : Ctx) (doc : Nat) (t : MT) :
    (evalCosts ctx doc 4 0 (t.prepare doc) []).2.1 = some ((t.prepare doc).val ctx doc) :=
  evalCosts_spec ctx doc 3 0 _ [] (MT.prepare_good ctx doc t) rfl


/-! ## nextDoc never skips a matching document (and → max, or → min, not → 0) -/

theorem firstSetAux_sound (bits : List Bool) : ∀ (i start d : Nat), start ≤ d → i ≤ d →
    d < firstSetAux bits i start → bits.getD (d - i) false = false := by
  induction bits with
  | nil => intros; simp
  | cons b rest ih =>
    intro i start d hs hi hd
    simp only [firstSetAux] at hd
    by_cases hc : start ≤ i ∧ b = true
    · simp only [hc, and_self, if_true] at hd; omega
    · simp only [hc, if_false] at hd
      by_cases hdi : d = i
      · subst hdi
        simp only [Nat.sub_self, List.getD_cons_zero]
        cases b
        · rfl
        · exact absurd ⟨hs, rfl⟩ hc
      · have := ih (i + 1) start d hs (by omega) hd
        have e : d - i = (d - (i + 1)) + 1 := by omega
        rw [e, List.getD_cons_succ]; exact this

theorem firstSet_sound (bits : List Bool) (start d : Nat) (hs : start ≤ d) (hd : d < firstSet bits start) :
    bits.getD d false = false := by
  have := firstSetAux_sound bits 0 start d hs (Nat.zero_le _) hd
  simpa using this


/-- what `nextDoc` of a substring leaf must guarantee: no document in `[L, nextDoc)` satisfies the leaf -/
def SubSound (subSem : Sub → Nat → Bool) (L : Nat) (s : Sub) : Prop :=
  match s.it with
  | Option.none => ∀ d, L ≤ d → subSem s d = false
  | some it => ∀ d, L ≤ d → d < it.nextDoc.1 → subSem s d = false

mutual
/-- static truth of a tree on document `d`; parameters: the truth of substring leaves and the extra conjunct of the
    same-line node -/
def MT.sem (subSem : Sub → Nat → Bool) (lineSem : MTs → Nat → Bool) (d : Nat) : MT → Bool
  | .doc _ bits _ _ => bits.getD d false
  | .brute _ _ => true
  | .none => false
  | .re _ _ bits _ _ _ _ => bits.getD d false
  | .sub s => subSem s d
  | .and _ ch => MTs.semAll subSem lineSem d ch
  | .andLine _ _ ch => MTs.semAll subSem lineSem d ch && lineSem ch d
  | .or _ ch => MTs.semAny subSem lineSem d ch
  | .not _ c => !(c.sem subSem lineSem d)
  | .fileName _ c => c.sem subSem lineSem d
  | .boost _ c => c.sem subSem lineSem d
  | .noVisit c => c.sem subSem lineSem d
def MTs.semAll (subSem : Sub → Nat → Bool) (lineSem : MTs → Nat → Bool) (d : Nat) : MTs → Bool
  | .nil => true
  | .cons h t => h.sem subSem lineSem d && MTs.semAll subSem lineSem d t
def MTs.semAny (subSem : Sub → Nat → Bool) (lineSem : MTs → Nat → Bool) (d : Nat) : MTs → Bool
  | .nil => false
  | .cons h t => h.sem subSem lineSem d || MTs.semAny subSem lineSem d t
end

mutual
/-- the iteration state of the leaves is consistent with "every document below `L` has been dealt with" -/
def MT.Cur (subSem : Sub → Nat → Bool) (L : Nat) : MT → Prop
  | .doc _ _ fd id => fd = true → id < L
  | .brute fd id => fd = true → id < L
  | .none => True
  | .re _ _ _ fd id _ _ => fd = true → id < L
  | .sub s => SubSound subSem L s
  | .and _ ch => MTs.CurAll subSem L ch
  | .andLine _ _ ch => MTs.CurAll subSem L ch
  | .or _ ch => MTs.CurAll subSem L ch
  | .not _ _ => True
  | .fileName _ c => c.Cur subSem L
  | .boost _ c => c.Cur subSem L
  | .noVisit c => c.Cur subSem L
def MTs.CurAll (subSem : Sub → Nat → Bool) (L : Nat) : MTs → Prop
  | .nil => True
  | .cons h t => h.Cur subSem L ∧ MTs.CurAll subSem L t
end

mutual
theorem MT.nextDoc_sound (subSem : Sub → Nat → Bool) (lineSem : MTs → Nat → Bool) (L : Nat) :
    (t : MT) → t.Cur subSem L → ∀ d, L ≤ d → d < t.nextDoc.1 → t.sem subSem lineSem d = false
  | .doc br bits fd id, h, d, hL, hd => by
    simp only [MT.nextDoc] at hd
    simp only [MT.sem]
    refine firstSet_sound bits _ d ?_ hd
    by_cases hf : fd = true
    · have := h hf; simp only [hf, if_true]; omega
    · simp [hf]
  | .brute fd id, h, d, hL, hd => by
    simp only [MT.nextDoc] at hd
    by_cases hf : fd = true
    · have := h hf; simp only [hf, if_true] at hd; omega
    · simp [hf] at hd
  | .none, _, d, _, _ => by simp [MT.sem]
  | .re w f bits fd id ev fo, h, d, hL, hd => by
    simp only [MT.nextDoc] at hd
    by_cases hf : fd = true
    · have := h hf; simp only [hf, if_true] at hd; omega
    · simp [hf] at hd
  | .sub s, h, d, hL, hd => by
    simp only [MT.sem]
    simp only [MT.Cur, SubSound] at h
    simp only [MT.nextDoc] at hd
    cases hit : s.it with
    | none => rw [hit] at h; exact h d hL
    | some it =>
      rw [hit] at h
      simp only [hit] at hd
      exact h d hL hd
  | .and k ch, h, d, hL, hd => by
    simp only [MT.nextDoc] at hd
    simp only [MT.sem]
    rcases MTs.nextDocMax_sound subSem lineSem L ch 0 h d hL hd with h1 | h1
    · omega
    · exact h1
  | .andLine k kin ch, h, d, hL, hd => by
    simp only [MT.nextDoc] at hd
    simp only [MT.sem]
    rcases MTs.nextDocMax_sound subSem lineSem L ch 0 h d hL hd with h1 | h1
    · omega
    · simp [h1]
  | .or k ch, h, d, hL, hd => by
    simp only [MT.nextDoc] at hd
    simp only [MT.sem]
    exact (MTs.nextDocMin_sound subSem lineSem L ch maxU32 h d hL hd).2
  | .not k c, _, d, _, hd => by simp [MT.nextDoc] at hd
  | .fileName k c, h, d, hL, hd => by
    simp only [MT.nextDoc] at hd
    simp only [MT.sem]
    exact MT.nextDoc_sound subSem lineSem L c h d hL hd
  | .boost k c, h, d, hL, hd => by
    simp only [MT.nextDoc] at hd
    simp only [MT.sem]
    exact MT.nextDoc_sound subSem lineSem L c h d hL hd
  | .noVisit c, h, d, hL, hd => by
    simp only [MT.nextDoc] at hd
    simp only [MT.sem]
    exact MT.nextDoc_sound subSem lineSem L c h d hL hd
theorem MTs.nextDocMax_sound (subSem : Sub → Nat → Bool) (lineSem : MTs → Nat → Bool) (L : Nat) :
    (ch : MTs) → (acc : Nat) → MTs.CurAll subSem L ch → ∀ d, L ≤ d → d < (MTs.nextDocMax ch acc).1 →
      d < acc ∨ MTs.semAll subSem lineSem d ch = false
  | .nil, acc, _, d, _, hd => by
    simp only [MTs.nextDocMax] at hd; exact Or.inl hd
  | .cons h t, acc, hc, d, hL, hd => by
    simp only [MTs.nextDocMax] at hd
    rcases MTs.nextDocMax_sound subSem lineSem L t _ hc.2 d hL hd with h1 | h1
    · by_cases hm : h.nextDoc.1 > acc
      · simp only [hm, if_true] at h1
        right
        simp only [MTs.semAll, MT.nextDoc_sound subSem lineSem L h hc.1 d hL h1, Bool.false_and]
      · simp only [hm, if_false] at h1; exact Or.inl h1
    · right; simp [MTs.semAll, h1]
theorem MTs.nextDocMin_sound (subSem : Sub → Nat → Bool) (lineSem : MTs → Nat → Bool) (L : Nat) :
    (ch : MTs) → (acc : Nat) → MTs.CurAll subSem L ch → ∀ d, L ≤ d → d < (MTs.nextDocMin ch acc).1 →
      d < acc ∧ MTs.semAny subSem lineSem d ch = false
  | .nil, acc, _, d, _, hd => by
    simp only [MTs.nextDocMin] at hd; exact ⟨hd, rfl⟩
  | .cons h t, acc, hc, d, hL, hd => by
    simp only [MTs.nextDocMin] at hd
    obtain ⟨h1, h2⟩ := MTs.nextDocMin_sound subSem lineSem L t _ hc.2 d hL hd
    by_cases hm : h.nextDoc.1 < acc
    · simp only [hm, if_true] at h1
      refine ⟨by omega, ?_⟩
      simp only [MTs.semAny, MT.nextDoc_sound subSem lineSem L h hc.1 d hL h1, h2, Bool.or_self]
    · simp only [hm, if_false] at h1
      refine ⟨h1, ?_⟩
      simp only [MTs.semAny, MT.nextDoc_sound subSem lineSem L h hc.1 d hL (by omega), h2, Bool.or_self]
end


/-! ## pruneMatchTree preserves the meaning; `nil` means unsatisfiable -/

/-- `prune` specification for one tree -/
def PruneOK (subSem : Sub → Nat → Bool) (lineSem : MTs → Nat → Bool) (t : MT) : Option MT → Prop
  | Option.none => ∀ d, t.sem subSem lineSem d = false
  | some t' => ∀ d, t'.sem subSem lineSem d = t.sem subSem lineSem d

def PruneAndOK (subSem : Sub → Nat → Bool) (lineSem : MTs → Nat → Bool) (ch : MTs) : Option MTs → Prop
  | Option.none => ∀ d, MTs.semAll subSem lineSem d ch = false
  | some ch' => ∀ d, MTs.semAll subSem lineSem d ch' = MTs.semAll subSem lineSem d ch

theorem pruneOK_map (subSem : Sub → Nat → Bool) (lineSem : MTs → Nat → Bool) (c : MT) (f : MT → MT) (t : MT)
    (o : Option MT) (h : PruneOK subSem lineSem c o)
    (h1 : ∀ d, t.sem subSem lineSem d = c.sem subSem lineSem d)
    (h2 : ∀ c' d, (f c').sem subSem lineSem d = c'.sem subSem lineSem d) :
    PruneOK subSem lineSem t (o.map f) := by
  cases o with
  | none => intro d; rw [h1]; exact h d
  | some c' => intro d; simp only [h2, h1]; exact h d

mutual
theorem MT.prune_spec (subSem : Sub → Nat → Bool) (lineSem : MTs → Nat → Bool)
    (hX : ∀ s : Sub, s.it = Option.none → ∀ d, subSem s d = false)
    (hline : ∀ ch ch', MTs.pruneAnd ch = some ch' → ∀ d, lineSem ch' d = lineSem ch d) :
    (t : MT) → PruneOK subSem lineSem t t.prune
  | .doc _ _ _ _ => by simp only [MT.prune]; intro d; rfl
  | .brute _ _ => by simp only [MT.prune]; intro d; rfl
  | .none => by simp only [MT.prune]; intro d; rfl
  | .re _ _ _ _ _ _ _ => by simp only [MT.prune]; intro d; rfl
  | .sub s => by
    simp only [MT.prune]
    by_cases h : s.it.isNone = true
    · simp only [h, if_true]
      intro d
      exact hX s (by simpa using h) d
    · simp only [h]; intro d; rfl
  | .and k ch => by
    simp only [MT.prune]
    have r := MTs.pruneAnd_spec subSem lineSem hX hline ch
    cases hp : MTs.pruneAnd ch with
    | none => rw [hp] at r; intro d; simp only [MT.sem]; exact r d
    | some ch' => rw [hp] at r; intro d; simp only [Option.map, MT.sem]; exact r d
  | .andLine k kin ch => by
    simp only [MT.prune]
    have r := MTs.pruneAnd_spec subSem lineSem hX hline ch
    cases hp : MTs.pruneAnd ch with
    | none => rw [hp] at r; intro d; simp only [MT.sem, r d, Bool.false_and]
    | some ch' => rw [hp] at r; intro d; simp only [Option.map, MT.sem, r d, hline ch ch' hp d]
  | .or k ch => by
    simp only [MT.prune]
    have r := MTs.pruneOr_spec subSem lineSem hX hline ch
    generalize MTs.pruneOr ch = p at r
    match p with
    | .nil => intro d; simp only [MT.sem]; rw [← r d]; rfl
    | .cons h .nil => intro d; simp only [MT.sem]; rw [← r d]; simp [MTs.semAny]
    | .cons h (.cons h2 t2) => intro d; simp only [MT.sem]; exact r d
  | .noVisit c =>
    by simp only [MT.prune]; exact pruneOK_map subSem lineSem c MT.noVisit _ _ (MT.prune_spec subSem lineSem hX hline c) (fun _ => rfl) (fun _ _ => rfl)
  | .fileName k c =>
    by simp only [MT.prune]; exact pruneOK_map subSem lineSem c (MT.fileName k) _ _ (MT.prune_spec subSem lineSem hX hline c) (fun _ => rfl) (fun _ _ => rfl)
  | .boost k c =>
    by simp only [MT.prune]; exact pruneOK_map subSem lineSem c (MT.boost k) _ _ (MT.prune_spec subSem lineSem hX hline c) (fun _ => rfl) (fun _ _ => rfl)
  | .not k c => by
    simp only [MT.prune]
    have r := MT.prune_spec subSem lineSem hX hline c
    cases hp : c.prune with
    | none => rw [hp] at r; intro d; simp only [MT.sem, r d]; rfl
    | some c' => rw [hp] at r; intro d; simp only [MT.sem, r d]
theorem MTs.pruneAnd_spec (subSem : Sub → Nat → Bool) (lineSem : MTs → Nat → Bool)
    (hX : ∀ s : Sub, s.it = Option.none → ∀ d, subSem s d = false)
    (hline : ∀ ch ch', MTs.pruneAnd ch = some ch' → ∀ d, lineSem ch' d = lineSem ch d) :
    (ch : MTs) → PruneAndOK subSem lineSem ch (MTs.pruneAnd ch)
  | .nil => by simp only [MTs.pruneAnd]; intro d; rfl
  | .cons h t => by
    simp only [MTs.pruneAnd]
    have rh := MT.prune_spec subSem lineSem hX hline h
    have rt := MTs.pruneAnd_spec subSem lineSem hX hline t
    cases hp : h.prune with
    | none => rw [hp] at rh; intro d; simp only [MTs.semAll, rh d, Bool.false_and]
    | some h' =>
      rw [hp] at rh
      cases hq : MTs.pruneAnd t with
      | none => rw [hq] at rt; intro d; simp only [MTs.semAll, rt d, Bool.and_false]
      | some t' => rw [hq] at rt; intro d; simp only [Option.map, MTs.semAll, rh d, rt d]
theorem MTs.pruneOr_spec (subSem : Sub → Nat → Bool) (lineSem : MTs → Nat → Bool)
    (hX : ∀ s : Sub, s.it = Option.none → ∀ d, subSem s d = false)
    (hline : ∀ ch ch', MTs.pruneAnd ch = some ch' → ∀ d, lineSem ch' d = lineSem ch d) :
    (ch : MTs) → ∀ d, MTs.semAny subSem lineSem d (MTs.pruneOr ch) = MTs.semAny subSem lineSem d ch
  | .nil => by intro d; rfl
  | .cons h t => by
    intro d
    simp only [MTs.pruneOr]
    have rh := MT.prune_spec subSem lineSem hX hline h
    have rt := MTs.pruneOr_spec subSem lineSem hX hline t d
    cases hp : h.prune with
    | none => rw [hp] at rh; simp only [MTs.semAny, rh d, rt, Bool.false_or]
    | some h' => rw [hp] at rh; simp only [MTs.semAny, rh d, rt]
end


/-! ## the document loop of `Search` -/

/-- the documents at or after `L` (among the next `k`) that satisfy `p`, in order -/
def expFrom (p : Nat → Bool) : Nat → Nat → List Nat
  | 0, _ => []
  | k + 1, L => if p L then L :: expFrom p k (L + 1) else expFrom p k (L + 1)

theorem expFrom_eq_filter (p : Nat → Bool) : ∀ k L, expFrom p k L = (List.range' L k).filter p := by
  intro k
  induction k with
  | zero => intro L; simp [expFrom]
  | succ k ih =>
    intro L
    simp only [expFrom, List.range'_succ, List.filter_cons, ih]

theorem expFrom_skip (p : Nat → Bool) : ∀ k L nd, L ≤ nd → nd ≤ L + k → (∀ d, L ≤ d → d < nd → p d = false) →
    expFrom p k L = expFrom p (k - (nd - L)) nd := by
  intro k
  induction k with
  | zero => intro L nd h1 h2 _; have : nd = L := by omega
            subst this; simp
  | succ k ih =>
    intro L nd h1 h2 h3
    by_cases he : nd = L
    · subst he; simp
    · have hp : p L = false := h3 L (Nat.le_refl _) (by omega)
      simp only [expFrom, hp, Bool.false_eq_true, if_false]
      rw [ih (L + 1) nd (by omega) (by omega) (fun d hd1 hd2 => h3 d (by omega) hd2)]
      congr 1; omega

theorem nextLive_spec (live : List Bool) : ∀ fuel d, d + fuel ≥ live.length →
    d ≤ nextLive live fuel d ∧
    (∀ x, d ≤ x → x < nextLive live fuel d → live.getD x false = false) ∧
    (nextLive live fuel d < live.length → live.getD (nextLive live fuel d) false = true) := by
  intro fuel
  induction fuel with
  | zero =>
    intro d hd
    simp only [nextLive]
    exact ⟨Nat.le_refl _, fun x h1 h2 => by omega, fun h => by omega⟩
  | succ fuel ih =>
    intro d hd
    simp only [nextLive]
    by_cases hc : d < live.length ∧ live.getD d false = false
    · simp only [hc, and_self, if_true]
      obtain ⟨i1, i2, i3⟩ := ih (d + 1) (by omega)
      refine ⟨by omega, ?_, i3⟩
      intro x h1 h2
      by_cases hx : x = d
      · subst hx; exact hc.2
      · exact i2 x (by omega) h2
    · simp only [hc, if_false]
      refine ⟨Nat.le_refl _, fun x h1 h2 => by omega, ?_⟩
      intro hl
      cases hb : live.getD d false
      · exact absurd ⟨hl, hb⟩ hc
      · rfl

/-- what the loop needs from the tree: an invariant `Inv L t` ("documents below `L` are dealt with") under which
    `nextDoc` never skips a document on which the tree is true, and `prepare` puts the tree in a state whose plain value
    is that truth; evaluation and the next `nextDoc` keep the invariant. -/
structure LoopHyp (ctx : Ctx) (truth : Nat → Bool) (Inv : Nat → MT → Prop) : Prop where
  next : ∀ L t, Inv L t → (∀ d, L ≤ d → d < t.nextDoc.1 → truth d = false) ∧ Inv L t.nextDoc.2
  prep : ∀ L t nd, Inv L t → L ≤ nd → nd < ctx.live.length →
    (t.prepare nd).val ctx nd = truth nd ∧ Inv (nd + 1) (evalCosts ctx nd 4 0 (t.prepare nd) []).2.2

theorem searchLoop_spec (ctx : Ctx) (truth : Nat → Bool) (Inv : Nat → MT → Prop) (H : LoopHyp ctx truth Inv) :
    ∀ (fuel : Nat) (t : MT) (L : Nat) (vs : List (Visit × List (List Nat))) (res : List Nat),
      Inv L t → ctx.live.length + 1 ≤ L + fuel →
      (searchLoop ctx fuel t L vs res).res =
        res.reverse ++ expFrom (fun d => ctx.live.getD d false && truth d) (ctx.live.length - L) L ∧
      (searchLoop ctx fuel t L vs res).panicked = false := by
  intro fuel
  induction fuel with
  | zero =>
    intro t L vs res _ hf
    have : ctx.live.length - L = 0 := by omega
    simp [searchLoop, this, expFrom]
  | succ fuel ih =>
    intro t L vs res hinv hf
    obtain ⟨hn1, hn2⟩ := H.next L t hinv
    rw [searchLoop]
    generalize hnd : t.nextDoc = ndr at hn1 hn2
    obtain ⟨raw, t1⟩ := ndr
    simp only at hn1 hn2
    simp only []
    generalize hnd0 : (if raw < L then L else raw) = nd0
    have hnd0L : L ≤ nd0 := by rw [← hnd0]; split <;> omega
    have hnd0raw : nd0 ≤ L ∨ nd0 ≤ raw := by rw [← hnd0]; split <;> omega
    obtain ⟨l1, l2, l3⟩ := nextLive_spec ctx.live ctx.live.length nd0 (by omega)
    generalize hndv : nextLive ctx.live ctx.live.length nd0 = nd at l1 l2 l3
    -- no document in [L, nd) belongs to the result
    have hskip : ∀ d, L ≤ d → d < nd → (ctx.live.getD d false && truth d) = false := by
      intro d h1 h2
      by_cases hd : d < nd0
      · have : d < raw := by omega
        simp [hn1 d h1 this]
      · rw [l2 d (by omega) h2]; rfl
    by_cases hge : nd ≥ ctx.live.length
    · simp only [hge, if_true]
      refine ⟨?_, trivial⟩
      by_cases hLl : L ≤ ctx.live.length
      · have := expFrom_skip (fun d => ctx.live.getD d false && truth d) (ctx.live.length - L) L ctx.live.length
          hLl (by omega) (fun d h1 h2 => hskip d h1 (by omega))
        rw [this]
        have : ctx.live.length - L - (ctx.live.length - L) = 0 := by omega
        simp [this, expFrom]
      · have : ctx.live.length - L = 0 := by omega
        simp [this, expFrom]
    · simp only [hge, if_false]
      have hlt : nd < ctx.live.length := by omega
      obtain ⟨hp1, hp2⟩ := H.prep L t1 nd hn2 (by omega) hlt
      have hst := staged_eval ctx nd t1
      generalize hev : evalCosts ctx nd 4 0 (t1.prepare nd) [] = evr at hst hp2
      obtain ⟨sts, verdict, t3⟩ := evr
      simp only at hst hp2
      rw [hp1] at hst
      subst hst
      have hlive : ctx.live.getD nd false = true := l3 hlt
      have hsplit : expFrom (fun d => ctx.live.getD d false && truth d) (ctx.live.length - L) L =
          expFrom (fun d => ctx.live.getD d false && truth d) (ctx.live.length - nd) nd := by
        rw [expFrom_skip _ (ctx.live.length - L) L nd (by omega) (by omega) hskip]
        congr 1; omega
      have hk : ctx.live.length - nd = (ctx.live.length - (nd + 1)) + 1 := by omega
      cases htr : truth nd with
      | true =>
        simp only []
        obtain ⟨i1, i2⟩ := ih t3 (nd + 1) _ (nd :: res) hp2 (by omega)
        refine ⟨?_, i2⟩
        have hpnd : (ctx.live.getD nd false && truth nd) = true := by rw [hlive, htr]; rfl
        rw [i1, hsplit, hk, expFrom]
        simp only [hpnd, if_true, List.reverse_cons, List.append_assoc, List.singleton_append]
      | false =>
        simp only []
        obtain ⟨i1, i2⟩ := ih t3 (nd + 1) _ res hp2 (by omega)
        refine ⟨?_, i2⟩
        have hpnd : (ctx.live.getD nd false && truth nd) = false := by rw [hlive, htr]; rfl
        rw [i1, hsplit, hk, expFrom]
        simp only [hpnd, Bool.false_eq_true, if_false]


/-! ## composition for trees without trigram-backed leaves (filters, engine-decided atoms, connectives) -/

mutual
/-- no `substrMatchTree` (and hence no `andLineMatchTree`, which only ever has substring children) -/
def MT.NoSub : MT → Prop
  | .sub _ => False
  | .andLine _ _ _ => False
  | .and _ ch => MTs.NoSubAll ch
  | .or _ ch => MTs.NoSubAll ch
  | .not _ c => c.NoSub
  | .fileName _ c => c.NoSub
  | .boost _ c => c.NoSub
  | .noVisit c => c.NoSub
  | _ => True
def MTs.NoSubAll : MTs → Prop
  | .nil => True
  | .cons h t => h.NoSub ∧ MTs.NoSubAll t
end

/-- meaning of a sub-free tree -/
abbrev sem0 (d : Nat) (t : MT) : Bool := t.sem (fun _ _ => false) (fun _ _ => true) d
abbrev semAll0 (d : Nat) (ch : MTs) : Bool := MTs.semAll (fun _ _ => false) (fun _ _ => true) d ch
abbrev semAny0 (d : Nat) (ch : MTs) : Bool := MTs.semAny (fun _ _ => false) (fun _ _ => true) d ch
abbrev Cur0 (L : Nat) (t : MT) : Prop := t.Cur (fun _ _ => false) L
abbrev CurAll0 (L : Nat) (ch : MTs) : Prop := MTs.CurAll (fun _ _ => false) L ch

mutual
theorem MT.nextDoc_noSub : (t : MT) → t.NoSub → t.nextDoc.2 = t
  | .doc _ _ _ _, _ => rfl
  | .brute _ _, _ => rfl
  | .none, _ => rfl
  | .re _ _ _ _ _ _ _, _ => rfl
  | .sub _, h => absurd h (by simp [MT.NoSub])
  | .andLine _ _ _, h => absurd h (by simp [MT.NoSub])
  | .and k ch, h => by simp only [MT.nextDoc, MTs.nextDocMax_noSub ch 0 h]
  | .or k ch, h => by simp only [MT.nextDoc, MTs.nextDocMin_noSub ch maxU32 h]
  | .not _ _, _ => rfl
  | .fileName k c, h => by simp only [MT.nextDoc, MT.nextDoc_noSub c h]
  | .boost k c, h => by simp only [MT.nextDoc, MT.nextDoc_noSub c h]
  | .noVisit c, h => by simp only [MT.nextDoc, MT.nextDoc_noSub c h]
theorem MTs.nextDocMax_noSub : (ch : MTs) → (acc : Nat) → MTs.NoSubAll ch → (MTs.nextDocMax ch acc).2 = ch
  | .nil, _, _ => rfl
  | .cons h t, acc, hh => by simp only [MTs.nextDocMax, MT.nextDoc_noSub h hh.1, MTs.nextDocMax_noSub t _ hh.2]
theorem MTs.nextDocMin_noSub : (ch : MTs) → (acc : Nat) → MTs.NoSubAll ch → (MTs.nextDocMin ch acc).2 = ch
  | .nil, _, _ => rfl
  | .cons h t, acc, hh => by simp only [MTs.nextDocMin, MT.nextDoc_noSub h hh.1, MTs.nextDocMin_noSub t _ hh.2]
end

mutual
theorem MT.prepare_noSub (ctx : Ctx) (nd : Nat) : (t : MT) → t.NoSub →
    (t.prepare nd).NoSub ∧ Cur0 (nd + 1) (t.prepare nd) ∧ (∀ d, sem0 d (t.prepare nd) = sem0 d t) ∧
    (t.prepare nd).val ctx nd = sem0 nd t
  | .doc _ _ _ _, _ => by simp [MT.prepare, MT.NoSub, MT.Cur, MT.sem, MT.val]
  | .brute _ _, _ => by simp [MT.prepare, MT.NoSub, MT.Cur, MT.sem, MT.val]
  | .none, _ => by simp [MT.prepare, MT.NoSub, MT.Cur, MT.sem, MT.val]
  | .re _ _ _ _ _ _ _, _ => by simp [MT.prepare, MT.NoSub, MT.Cur, MT.sem, MT.val]
  | .sub _, h => absurd h (by simp [MT.NoSub])
  | .andLine _ _ _, h => absurd h (by simp [MT.NoSub])
  | .and k ch, h => by
    have r := MTs.prepare_noSub ctx nd ch h
    simp only [MT.prepare, MT.NoSub, MT.Cur, MT.sem, MT.val]
    exact ⟨r.1, r.2.1, r.2.2.1, r.2.2.2.1⟩
  | .or k ch, h => by
    have r := MTs.prepare_noSub ctx nd ch h
    simp only [MT.prepare, MT.NoSub, MT.Cur, MT.sem, MT.val]
    exact ⟨r.1, r.2.1, r.2.2.2.2.1, r.2.2.2.2.2⟩
  | .not k c, h => by
    have r := MT.prepare_noSub ctx nd c h
    simp only [MT.prepare, MT.NoSub, MT.Cur, MT.sem, MT.val]
    exact ⟨r.1, trivial, fun d => by have a := r.2.2.1 d; simp only [sem0] at a; rw [a], by have a := r.2.2.2; simp only [sem0] at a; rw [a]⟩
  | .fileName k c, h => by
    have r := MT.prepare_noSub ctx nd c h
    simp only [MT.prepare, MT.NoSub, MT.Cur, MT.sem, MT.val]
    exact r
  | .boost k c, h => by
    have r := MT.prepare_noSub ctx nd c h
    simp only [MT.prepare, MT.NoSub, MT.Cur, MT.sem, MT.val]
    exact r
  | .noVisit c, h => by
    have r := MT.prepare_noSub ctx nd c h
    simp only [MT.prepare, MT.NoSub, MT.Cur, MT.sem, MT.val]
    exact r
theorem MTs.prepare_noSub (ctx : Ctx) (nd : Nat) : (ch : MTs) → MTs.NoSubAll ch →
    MTs.NoSubAll (MTs.prepare nd ch) ∧ CurAll0 (nd + 1) (MTs.prepare nd ch) ∧
    (∀ d, semAll0 d (MTs.prepare nd ch) = semAll0 d ch) ∧ MTs.valAll ctx nd (MTs.prepare nd ch) = semAll0 nd ch ∧
    (∀ d, semAny0 d (MTs.prepare nd ch) = semAny0 d ch) ∧ MTs.valAny ctx nd (MTs.prepare nd ch) = semAny0 nd ch
  | .nil, _ => by simp [MTs.prepare, MTs.NoSubAll, MTs.CurAll, MTs.semAll, MTs.semAny, MTs.valAll, MTs.valAny]
  | .cons h t, hh => by
    have r1 := MT.prepare_noSub ctx nd h hh.1
    have r2 := MTs.prepare_noSub ctx nd t hh.2
    simp only [MTs.prepare, MTs.NoSubAll, MTs.CurAll, MTs.semAll, MTs.semAny, MTs.valAll, MTs.valAny]
    refine ⟨⟨r1.1, r2.1⟩, ⟨r1.2.1, r2.2.1⟩, fun d => ?_, ?_, fun d => ?_, ?_⟩
    · have a := r1.2.2.1 d; have b := r2.2.2.1 d; simp only [sem0, semAll0] at a b; rw [a, b]
    · have a := r1.2.2.2; have b := r2.2.2.2.1; simp only [sem0, semAll0] at a b; rw [a, b]
    · have a := r1.2.2.1 d; have b := r2.2.2.2.2.1 d; simp only [sem0, semAny0] at a b; rw [a, b]
    · have a := r1.2.2.2; have b := r2.2.2.2.2.2; simp only [sem0, semAny0] at a b; rw [a, b]
end


/-- evaluation only touches `known` entries and `evaluated` flags -/
structure Kept (L : Nat) (t t' : MT) : Prop where
  noSub : t'.NoSub
  cur : Cur0 L t → Cur0 L t'
  sem : ∀ d, sem0 d t' = sem0 d t

structure KeptAll (L : Nat) (ch ch' : MTs) : Prop where
  noSub : MTs.NoSubAll ch'
  cur : CurAll0 L ch → CurAll0 L ch'
  semAll : ∀ d, semAll0 d ch' = semAll0 d ch
  semAny : ∀ d, semAny0 d ch' = semAny0 d ch

theorem Kept.rfl' (L : Nat) (t : MT) (h : t.NoSub) : Kept L t t := ⟨h, id, fun _ => rfl⟩

mutual
theorem MT.eval_kept (ctx : Ctx) (doc cost L : Nat) : (t : MT) → t.NoSub → Kept L t (t.eval ctx doc cost).2
  | .doc _ _ _ _, h => by simp only [MT.eval]; exact Kept.rfl' L _ h
  | .brute _ _, h => by simp only [MT.eval]; exact Kept.rfl' L _ h
  | .none, h => by simp only [MT.eval]; exact Kept.rfl' L _ h
  | .re w f bits fd id ev fo, h => by
    simp only [MT.eval]
    split
    · exact Kept.rfl' L _ h
    · split
      · exact Kept.rfl' L _ h
      · exact ⟨trivial, fun hc => hc, fun _ => rfl⟩
  | .sub _, h => absurd h (by simp [MT.NoSub])
  | .andLine _ _ _, h => absurd h (by simp [MT.NoSub])
  | .and k ch, h => by
    simp only [MT.eval]
    cases k with
    | some v => exact Kept.rfl' L _ h
    | none =>
      have r := MTs.evalAnd_kept ctx doc cost L ch h
      exact ⟨r.noSub, r.cur, r.semAll⟩
  | .or k ch, h => by
    simp only [MT.eval]
    cases k with
    | some v => exact Kept.rfl' L _ h
    | none =>
      have r := MTs.evalOr_kept ctx doc cost L ch h
      exact ⟨r.noSub, r.cur, r.semAny⟩
  | .not k c, h => by
    simp only [MT.eval]
    cases k with
    | some v => exact Kept.rfl' L _ h
    | none =>
      have r := MT.eval_kept ctx doc cost L c h
      exact ⟨r.noSub, fun _ => trivial, fun d => by have a := r.sem d; simp only [sem0, MT.sem] at a ⊢; rw [a]⟩
  | .fileName k c, h => by
    simp only [MT.eval]
    cases k with
    | some v => exact Kept.rfl' L _ h
    | none =>
      have r := MT.eval_kept ctx doc cost L c h
      exact ⟨r.noSub, r.cur, r.sem⟩
  | .boost k c, h => by
    simp only [MT.eval]
    cases k with
    | some v => exact Kept.rfl' L _ h
    | none =>
      have r := MT.eval_kept ctx doc cost L c h
      exact ⟨r.noSub, r.cur, r.sem⟩
  | .noVisit c, h => by
    simp only [MT.eval]
    have r := MT.eval_kept ctx doc cost L c h
    exact ⟨r.noSub, r.cur, r.sem⟩
theorem MTs.evalAnd_kept (ctx : Ctx) (doc cost L : Nat) : (ch : MTs) → MTs.NoSubAll ch →
    KeptAll L ch (MTs.evalAnd ctx doc cost ch).2
  | .nil, _ => by simp only [MTs.evalAnd]; exact ⟨trivial, id, fun _ => rfl, fun _ => rfl⟩
  | .cons h t, hh => by
    have r1 := MT.eval_kept ctx doc cost L h hh.1
    have r2 := MTs.evalAnd_kept ctx doc cost L t hh.2
    simp only [MTs.evalAnd]
    generalize h.eval ctx doc cost = rv at r1
    generalize MTs.evalAnd ctx doc cost t = rtv at r2
    obtain ⟨sh, h'⟩ := rv
    obtain ⟨stl, t'⟩ := rtv
    have a := r1.sem; have b := r2.semAll; have c := r2.semAny
    simp only [sem0, semAll0, semAny0] at a b c
    cases sh <;> simp only []
    · exact ⟨⟨r1.noSub, r2.noSub⟩, fun hc => ⟨r1.cur hc.1, r2.cur hc.2⟩,
        fun d => by simp only [semAll0, MTs.semAll, a d, b d], fun d => by simp only [semAny0, MTs.semAny, a d, c d]⟩
    · exact ⟨⟨r1.noSub, r2.noSub⟩, fun hc => ⟨r1.cur hc.1, r2.cur hc.2⟩,
        fun d => by simp only [semAll0, MTs.semAll, a d, b d], fun d => by simp only [semAny0, MTs.semAny, a d, c d]⟩
    · exact ⟨⟨r1.noSub, hh.2⟩, fun hc => ⟨r1.cur hc.1, hc.2⟩,
        fun d => by simp only [semAll0, MTs.semAll, a d], fun d => by simp only [semAny0, MTs.semAny, a d]⟩
theorem MTs.evalOr_kept (ctx : Ctx) (doc cost L : Nat) : (ch : MTs) → MTs.NoSubAll ch →
    KeptAll L ch (MTs.evalOr ctx doc cost ch).2
  | .nil, _ => by simp only [MTs.evalOr]; exact ⟨trivial, id, fun _ => rfl, fun _ => rfl⟩
  | .cons h t, hh => by
    have r1 := MT.eval_kept ctx doc cost L h hh.1
    have r2 := MTs.evalOr_kept ctx doc cost L t hh.2
    simp only [MTs.evalOr]
    have a := r1.sem; have b := r2.semAll; have c := r2.semAny
    simp only [sem0, semAll0, semAny0] at a b c
    exact ⟨⟨r1.noSub, r2.noSub⟩, fun hc => ⟨r1.cur hc.1, r2.cur hc.2⟩,
      fun d => by simp only [semAll0, MTs.semAll, a d, b d], fun d => by simp only [semAny0, MTs.semAny, a d, c d]⟩
end

theorem evalCosts_kept (ctx : Ctx) (doc L : Nat) : ∀ (n cost : Nat) (t : MT) (acc : List St), t.NoSub →
    Kept L t (evalCosts ctx doc n cost t acc).2.2 := by
  intro n
  induction n with
  | zero => intro cost t acc h; simp only [evalCosts]; exact Kept.rfl' L t h
  | succ n ih =>
    intro cost t acc h
    have r := MT.eval_kept ctx doc cost L t h
    rw [evalCosts]
    generalize t.eval ctx doc cost = rv at r
    obtain ⟨st, t'⟩ := rv
    have step : ∀ acc', Kept L t (evalCosts ctx doc n (cost + 1) t' acc').2.2 := by
      intro acc'
      have r2 := ih (cost + 1) t' acc' r.noSub
      exact ⟨r2.noSub, fun hc => r2.cur (r.cur hc), fun d => by rw [r2.sem d, r.sem d]⟩
    cases st with
    | none => exact r
    | higher =>
      simp only []
      split
      · exact r
      · exact step _
    | found => exact step _


mutual
theorem MT.prune_noSub : (t : MT) → t.NoSub → ∀ t', t.prune = some t' → t'.NoSub ∧ (Cur0 0 t → Cur0 0 t')
  | .doc _ _ _ _, h, t', e => by simp only [MT.prune, Option.some.injEq] at e; subst e; exact ⟨h, fun hc => hc⟩
  | .brute _ _, h, t', e => by simp only [MT.prune, Option.some.injEq] at e; subst e; exact ⟨h, fun hc => hc⟩
  | .none, h, t', e => by simp only [MT.prune, Option.some.injEq] at e; subst e; exact ⟨h, fun hc => hc⟩
  | .re _ _ _ _ _ _ _, h, t', e => by simp only [MT.prune, Option.some.injEq] at e; subst e; exact ⟨h, fun hc => hc⟩
  | .sub _, h, _, _ => absurd h (by simp [MT.NoSub])
  | .andLine _ _ _, h, _, _ => absurd h (by simp [MT.NoSub])
  | .and k ch, h, t', e => by
    simp only [MT.prune] at e
    cases hp : MTs.pruneAnd ch with
    | none => simp [hp] at e
    | some ch' =>
      simp only [hp, Option.map, Option.some.injEq] at e; subst e
      exact MTs.pruneAnd_noSub ch h ch' hp
  | .or k ch, h, t', e => by
    simp only [MT.prune] at e
    have r := MTs.pruneOr_noSub ch h
    generalize MTs.pruneOr ch = p at r e
    match p with
    | .nil => simp at e
    | .cons x .nil => simp only [Option.some.injEq] at e; subst e; exact ⟨r.1.1, fun hc => (r.2 hc).1⟩
    | .cons x (.cons y z) => simp only [Option.some.injEq] at e; subst e; exact r
  | .not k c, h, t', e => by
    simp only [MT.prune] at e
    cases hp : c.prune with
    | none => simp only [hp, Option.some.injEq] at e; subst e; exact ⟨trivial, fun _ => by simp [MT.Cur]⟩
    | some c' =>
      simp only [hp, Option.some.injEq] at e; subst e
      exact ⟨(MT.prune_noSub c h c' hp).1, fun _ => trivial⟩
  | .fileName k c, h, t', e => by
    simp only [MT.prune] at e
    cases hp : c.prune with
    | none => simp [hp] at e
    | some c' => simp only [hp, Option.map, Option.some.injEq] at e; subst e; exact MT.prune_noSub c h c' hp
  | .boost k c, h, t', e => by
    simp only [MT.prune] at e
    cases hp : c.prune with
    | none => simp [hp] at e
    | some c' => simp only [hp, Option.map, Option.some.injEq] at e; subst e; exact MT.prune_noSub c h c' hp
  | .noVisit c, h, t', e => by
    simp only [MT.prune] at e
    cases hp : c.prune with
    | none => simp [hp] at e
    | some c' => simp only [hp, Option.map, Option.some.injEq] at e; subst e; exact MT.prune_noSub c h c' hp
theorem MTs.pruneAnd_noSub : (ch : MTs) → MTs.NoSubAll ch → ∀ ch', MTs.pruneAnd ch = some ch' →
    MTs.NoSubAll ch' ∧ (CurAll0 0 ch → CurAll0 0 ch')
  | .nil, _, ch', e => by simp only [MTs.pruneAnd, Option.some.injEq] at e; subst e; exact ⟨trivial, fun _ => trivial⟩
  | .cons h t, hh, ch', e => by
    simp only [MTs.pruneAnd] at e
    cases hp : h.prune with
    | none => simp [hp] at e
    | some h' =>
      cases hq : MTs.pruneAnd t with
      | none => simp [hp, hq] at e
      | some t' =>
        simp only [hp, hq, Option.map, Option.some.injEq] at e; subst e
        have r1 := MT.prune_noSub h hh.1 h' hp
        have r2 := MTs.pruneAnd_noSub t hh.2 t' hq
        exact ⟨⟨r1.1, r2.1⟩, fun hc => ⟨r1.2 hc.1, r2.2 hc.2⟩⟩
theorem MTs.pruneOr_noSub : (ch : MTs) → MTs.NoSubAll ch →
    MTs.NoSubAll (MTs.pruneOr ch) ∧ (CurAll0 0 ch → CurAll0 0 (MTs.pruneOr ch))
  | .nil, _ => ⟨trivial, fun _ => trivial⟩
  | .cons h t, hh => by
    simp only [MTs.pruneOr]
    have r2 := MTs.pruneOr_noSub t hh.2
    cases hp : h.prune with
    | none => exact ⟨r2.1, fun hc => r2.2 hc.2⟩
    | some h' =>
      have r1 := MT.prune_noSub h hh.1 h' hp
      exact ⟨⟨r1.1, r2.1⟩, fun hc => ⟨r1.2 hc.1, r2.2 hc.2⟩⟩
end

/-- the loop hypotheses hold for sub-free trees -/
theorem loopHyp_noSub (ctx : Ctx) (t0 : MT) :
    LoopHyp ctx (fun d => sem0 d t0) (fun L t => t.NoSub ∧ Cur0 L t ∧ ∀ d, sem0 d t = sem0 d t0) where
  next := by
    intro L t ⟨h1, h2, h3⟩
    refine ⟨fun d hL hd => ?_, ?_⟩
    · have := MT.nextDoc_sound (fun _ _ => false) (fun _ _ => true) L t h2 d hL hd
      rw [← h3 d]; exact this
    · rw [MT.nextDoc_noSub t h1]; exact ⟨h1, h2, h3⟩
  prep := by
    intro L t nd ⟨h1, _, h3⟩ _ _
    obtain ⟨p1, p2, p3, p4⟩ := MT.prepare_noSub ctx nd t h1
    refine ⟨by rw [p4, h3 nd], ?_⟩
    have k := evalCosts_kept ctx nd (nd + 1) 4 0 (t.prepare nd) [] p1
    exact ⟨k.noSub, k.cur p2, fun d => by rw [k.sem d, p3 d, h3 d]⟩

end ZoektModel.C01
