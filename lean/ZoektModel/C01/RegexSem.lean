/-
C01 — L9: denotational semantics of the regexp syntax trees on rune strings, and the meaning of an extracted literal
tree. `ci` = the whole regexp is matched case-insensitively (the query atom is not case sensitive: zoekt prepends `(?i)`).
Case-insensitive literal matching is rune-wise equality after lower-casing (the property's restriction to runes on which
lower-casing and simple folding agree).
-/
import ZoektModel.C01.Regex
import ZoektModel.C01.LineLemmas
namespace ZoektModel.C01

/-- zero or more consecutive matches -/
inductive StarM (P : Nat → Nat → Prop) : Nat → Nat → Prop where
  | refl (i : Nat) : StarM P i i
  | step (i k j : Nat) : P i k → StarM P k j → StarM P i j

/-- exactly `n` consecutive matches -/
def RepM (P : Nat → Nat → Prop) : Nat → Nat → Nat → Prop
  | 0, i, j => i = j
  | n + 1, i, j => ∃ k, P i k ∧ RepM P n k j

def isWordRune (c : Nat) : Bool :=
  (decide (97 ≤ c) && decide (c ≤ 122)) || (decide (65 ≤ c) && decide (c ≤ 90)) ||
  (decide (48 ≤ c) && decide (c ≤ 57)) || c == 95

def wordBoundaryAt (s : List Nat) (i : Nat) : Prop :=
  (decide (0 < i) && isWordRune (s.getD (i - 1) 0)) ≠ (decide (i < s.length) && isWordRune (s.getD i 0))

mutual
/-- `r` matches `s[i, j)` in the context of the whole string `s` -/
def Rx.M (ci : Bool) (s : List Nat) : Rx → Nat → Nat → Prop
  | .lit rs fold, i, j =>
    j = i + rs.length ∧ j ≤ s.length ∧
    ∀ k, k < rs.length →
      if fold || ci then toLowerRune (s.getD (i + k) 0) = toLowerRune (rs.getD k 0) else s.getD (i + k) 0 = rs.getD k 0
  | .cls ranges, i, j => j = i + 1 ∧ i < s.length ∧ ∃ p, p ∈ ranges ∧ p.1 ≤ s.getD i 0 ∧ s.getD i 0 ≤ p.2
  | .anyNL, i, j => j = i + 1 ∧ i < s.length
  | .anyNotNL, i, j => j = i + 1 ∧ i < s.length ∧ s.getD i 0 ≠ 10
  | .beginLine, i, j => i = j ∧ j ≤ s.length ∧ (i = 0 ∨ s.getD (i - 1) 0 = 10)
  | .endLine, i, j => i = j ∧ j ≤ s.length ∧ (i = s.length ∨ s.getD i 0 = 10)
  | .beginText, i, j => i = j ∧ i = 0
  | .endText, i, j => i = j ∧ i = s.length
  | .wordB, i, j => i = j ∧ j ≤ s.length ∧ wordBoundaryAt s i
  | .noWordB, i, j => i = j ∧ j ≤ s.length ∧ ¬ wordBoundaryAt s i
  | .empty, i, j => i = j ∧ j ≤ s.length
  | .noMatch, _, _ => False
  | .cap r, i, j => r.M ci s i j
  | .star r, i, j => i ≤ s.length ∧ StarM (r.M ci s) i j
  | .plus r, i, j => ∃ k, r.M ci s i k ∧ StarM (r.M ci s) k j
  | .quest r, i, j => (i = j ∧ j ≤ s.length) ∨ r.M ci s i j
  | .rep r mn mx, i, j =>
    i ≤ s.length ∧ ∃ n, mn ≤ n ∧ (match mx with | Option.none => True | some m => n ≤ m) ∧ RepM (r.M ci s) n i j
  | .cat rs, i, j => Rxs.MCat ci s rs i j
  | .alt rs, i, j => Rxs.MAlt ci s rs i j
def Rxs.MCat (ci : Bool) (s : List Nat) : Rxs → Nat → Nat → Prop
  | .nil, i, j => i = j ∧ j ≤ s.length
  | .cons h t, i, j => ∃ k, h.M ci s i k ∧ Rxs.MCat ci s t k j
def Rxs.MAlt (ci : Bool) (s : List Nat) : Rxs → Nat → Nat → Prop
  | .nil, _, _ => False
  | .cons h t, i, j => h.M ci s i j ∨ Rxs.MAlt ci s t i j
end

/-- the regexp matches somewhere in the text -/
def Rx.matchesText (ci : Bool) (r : Rx) (s : List Nat) : Prop := ∃ i j, r.M ci s i j

/-- occurrence of a literal at offset `o` as a substring leaf tests it -/
def subOcc (cs : Bool) (pat s : List Nat) (o : Nat) : Prop :=
  if cs then pat.isPrefixOf (s.drop o) = true
  else (pat.map toLowerRune).isPrefixOf ((s.drop o).map toLowerRune) = true

def NoNL (s : List Nat) (i j : Nat) : Prop := ∀ k, i ≤ k → k < j → s.getD k 0 ≠ 10

mutual
/-- the literal tree is satisfied inside the span `[i, j)`; a same-line node inside a sub-span without a newline -/
def Lit.inSpan (s : List Nat) : Lit → Nat → Nat → Prop
  | .brute, _, _ => True
  | .none, _, _ => False
  | .sub pat cs, i, j => ∃ o, i ≤ o ∧ o + pat.length ≤ j ∧ subOcc cs pat s o
  | .and ch, i, j => Lit.allInSpan s ch i j
  | .andLine ch, i, j => ∃ i' j', i ≤ i' ∧ j' ≤ j ∧ NoNL s i' j' ∧ Lit.allInSpan s ch i' j'
  | .or ch, i, j => Lit.anyInSpan s ch i j
def Lit.allInSpan (s : List Nat) : List Lit → Nat → Nat → Prop
  | [], _, _ => True
  | c :: cs, i, j => c.inSpan s i j ∧ Lit.allInSpan s cs i j
def Lit.anyInSpan (s : List Nat) : List Lit → Nat → Nat → Prop
  | [], _, _ => False
  | c :: cs, i, j => c.inSpan s i j ∨ Lit.anyInSpan s cs i j
end

end ZoektModel.C01
