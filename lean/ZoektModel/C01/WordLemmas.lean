/-
C01 — L10: the `\bLITERAL\b` fast path finds something exactly when the literal occurs between non-word bytes, and for
literals with word-byte edges (the only ones `regexpToWordMatchTree` accepts) that is what `\bLITERAL\b` means.
-/
import ZoektModel.C01.Word
namespace ZoektModel.C01

theorem isPrefixOf_nil_false (needle : List Nat) (h : needle ≠ []) : needle.isPrefixOf ([] : List Nat) = false := by
  cases needle with
  | nil => exact absurd rfl h
  | cons a t => rfl

/-- `bytes.Index`: the first occurrence -/
theorem bytesIndex_spec (needle : List Nat) (hn : needle ≠ []) : ∀ (hay : List Nat),
    (∀ i, bytesIndex hay needle = some i →
      needle.isPrefixOf (hay.drop i) = true ∧ ∀ j, j < i → needle.isPrefixOf (hay.drop j) = false) ∧
    (bytesIndex hay needle = Option.none → ∀ j, needle.isPrefixOf (hay.drop j) = false) := by
  intro hay
  induction hay with
  | nil =>
    have he : needle.isEmpty = false := by cases needle <;> simp_all
    simp only [bytesIndex, he, Bool.false_eq_true, if_false]
    exact ⟨fun i h => by simp at h, fun _ j => by simp [isPrefixOf_nil_false needle hn]⟩
  | cons a t ih =>
    obtain ⟨i1, i2⟩ := ih
    simp only [bytesIndex]
    by_cases hp : needle.isPrefixOf (a :: t) = true
    · simp only [hp, if_true]
      refine ⟨fun i h => ?_, fun h => by simp at h⟩
      simp only [Option.some.injEq] at h
      subst h
      exact ⟨by simpa using hp, fun j hj => by omega⟩
    · have hp' : needle.isPrefixOf (a :: t) = false := Bool.eq_false_iff.mpr hp
      simp only [hp', Bool.false_eq_true, if_false]
      refine ⟨fun i h => ?_, fun h j => ?_⟩
      · cases hb : bytesIndex t needle with
        | none => simp [hb] at h
        | some k =>
          simp only [hb, Option.map, Option.some.injEq] at h
          subst h
          obtain ⟨a1, a2⟩ := i1 k hb
          refine ⟨by simpa using a1, fun j hj => ?_⟩
          cases j with
          | zero => simpa using hp'
          | succ j => simp only [List.drop_succ_cons]; exact a2 j (by omega)
      · cases hb : bytesIndex t needle with
        | some k => simp [hb] at h
        | none =>
          cases j with
          | zero => simpa using hp'
          | succ j => simp only [List.drop_succ_cons]; exact i2 hb j

theorem length_pos_of_ne_nil (word : List Nat) (hw : word ≠ []) : 0 < word.length := by
  cases word with
  | nil => exact absurd rfl hw
  | cons _ _ => simp

theorem occ_bound (data word : List Nat) (p : Nat) (hw : word ≠ []) (h : word.isPrefixOf (data.drop p) = true) :
    p + word.length ≤ data.length ∧ p < data.length := by
  have := (List.isPrefixOf_iff_prefix.mp h).length_le
  rw [List.length_drop] at this
  have : 0 < word.length := by cases word with
    | nil => exact absurd rfl hw
    | cons _ _ => simp
  omega

/-- the scan loop: everything it reports is a qualifying occurrence, and it reports something whenever one exists at
    or after the current offset -/
theorem wordLoop_spec (data word : List Nat) (hw : word ≠ []) : ∀ (fuel offset : Nat) (acc : List Nat),
    data.length < offset + fuel → offset ≤ data.length →
    (∀ x, x ∈ acc → x ∈ wordLoop data word fuel offset acc) ∧
    (∀ x, x ∈ wordLoop data word fuel offset acc → x ∈ acc ∨ wordAt data word x = true) ∧
    ((∃ p, offset ≤ p ∧ wordAt data word p = true) → wordLoop data word fuel offset acc ≠ []) := by
  intro fuel
  induction fuel with
  | zero => intro offset acc h1 h2; omega
  | succ fuel ih =>
    intro offset acc h1 h2
    obtain ⟨b1, b2⟩ := bytesIndex_spec word hw (data.drop offset)
    rw [wordLoop]
    cases hb : bytesIndex (data.drop offset) word with
    | none =>
      simp only []
      have hno := b2 hb
      refine ⟨fun x hx => by simpa using hx, fun x hx => Or.inl (by simpa using hx), fun ⟨p, hp, hat⟩ => ?_⟩
      exfalso
      have := hno (p - offset)
      rw [List.drop_drop] at this
      have e : offset + (p - offset) = p := by omega
      rw [e] at this
      simp only [wordAt, Bool.and_eq_true] at hat
      rw [this] at hat
      exact absurd hat.1.1 (by simp)
    | some idx =>
      simp only []
      obtain ⟨c1, c2⟩ := b1 idx hb
      rw [List.drop_drop] at c1
      obtain ⟨o1, o2⟩ := occ_bound data word (offset + idx) hw c1
      have hwl : 0 < word.length := length_pos_of_ne_nil word hw
      -- the two boundary tests of the Go code are `wordAt`'s, given the occurrence
      have hsame : (decide (offset + idx < data.length) && (offset + idx == 0 || !isWordByte (data.getD (offset + idx - 1) 0)) &&
          (decide (offset + idx + word.length > 0) && (offset + idx + word.length == data.length ||
            !isWordByte (data.getD (offset + idx + word.length) 0)))) = wordAt data word (offset + idx) := by
        have d1 : decide (offset + idx < data.length) = true := by simpa using o2
        have d2 : decide (offset + idx + word.length > 0) = true := by simp; omega
        simp only [wordAt, c1, d1, d2, Bool.true_and]
      -- no qualifying occurrence lies in [offset, offset + idx)
      have hfirst : ∀ p, offset ≤ p → wordAt data word p = true → offset + idx ≤ p := by
        intro p hp hat
        apply Classical.byContradiction
        intro hlt
        have := c2 (p - offset) (by omega)
        rw [List.drop_drop] at this
        have e : offset + (p - offset) = p := by omega
        rw [e] at this
        simp only [wordAt, Bool.and_eq_true] at hat
        rw [this] at hat
        exact absurd hat.1.1 (by simp)
      rw [hsame]
      by_cases hat : wordAt data word (offset + idx) = true
      · simp only [hat, if_true]
        obtain ⟨i1, i2, _⟩ := ih (offset + idx + word.length) ((offset + idx) :: acc) (by omega) (by omega)
        refine ⟨fun x hx => i1 x (List.mem_cons_of_mem _ hx), fun x hx => ?_, fun _ => ?_⟩
        · rcases i2 x hx with h | h
          · rcases List.mem_cons.mp h with e | e
            · subst e; exact Or.inr hat
            · exact Or.inl e
          · exact Or.inr h
        · exact List.ne_nil_of_mem (i1 _ List.mem_cons_self)
      · simp only [hat, Bool.false_eq_true, if_false]
        obtain ⟨i1, i2, i3⟩ := ih (offset + idx + 1) acc (by omega) (by omega)
        refine ⟨i1, i2, fun ⟨p, hp, hpat⟩ => i3 ⟨p, ?_, hpat⟩⟩
        have := hfirst p hp hpat
        have hne : p ≠ offset + idx := fun e => hat (e ▸ hpat)
        omega

/-- **the fast path reports a match iff the word occurs somewhere between non-word bytes**, and every reported offset is
    such an occurrence -/
theorem wordMatches_spec (data word : List Nat) (hw : word ≠ []) :
    (wordMatches data word ≠ [] ↔ wordSpec data word = true) ∧
    (∀ x, x ∈ wordMatches data word → wordAt data word x = true) := by
  obtain ⟨_, r2, r3⟩ := wordLoop_spec data word hw (data.length + 1) 0 [] (by omega) (Nat.zero_le _)
  refine ⟨⟨fun hne => ?_, fun hs => ?_⟩, fun x hx => ?_⟩
  · obtain ⟨x, hx⟩ := List.exists_mem_of_ne_nil _ hne
    have hat : wordAt data word x = true := by
      rcases r2 x hx with h | h
      · simp at h
      · exact h
    simp only [wordSpec, List.any_eq_true, List.mem_range]
    refine ⟨x, ?_, hat⟩
    simp only [wordAt, Bool.and_eq_true] at hat
    have := (occ_bound data word x hw hat.1.1).1
    omega
  · simp only [wordSpec, List.any_eq_true, List.mem_range] at hs
    obtain ⟨p, _, hp⟩ := hs
    exact r3 ⟨p, Nat.zero_le _, hp⟩
  · rcases r2 x hx with h | h
    · simp at h
    · exact h

theorem prefix_getD (word data : List Nat) (p k : Nat) (h : word.isPrefixOf (data.drop p) = true) (hk : k < word.length) :
    data.getD (p + k) 0 = word.getD k 0 := by
  obtain ⟨r, hr⟩ := List.isPrefixOf_iff_prefix.mp h
  have : (data.drop p).getD k 0 = word.getD k 0 := by
    rw [← hr]
    simp [List.getD_eq_getElem?_getD, List.getElem?_append_left hk]
  rw [← this]
  simp [List.getD_eq_getElem?_getD, List.getElem?_drop]

/-- **for a literal whose first and last bytes are word bytes, "between non-word bytes" is RE2's `\b…\b`** -/
theorem word_boundary_equiv (data word : List Nat) (p : Nat) (hw : word ≠ [])
    (hfirst : isWordByte (word.getD 0 0) = true) (hlast : isWordByte (word.getD (word.length - 1) 0) = true) :
    reWordAt data word p = wordAt data word p := by
  unfold reWordAt wordAt
  cases hocc : word.isPrefixOf (data.drop p) with
  | false => simp
  | true =>
    obtain ⟨o1, o2⟩ := occ_bound data word p hw hocc
    have hwl : 0 < word.length := length_pos_of_ne_nil word hw
    have g0 : data.getD p 0 = word.getD 0 0 := by
      have := prefix_getD word data p 0 hocc hwl; simpa using this
    have gl : data.getD (p + word.length - 1) 0 = word.getD (word.length - 1) 0 := by
      have := prefix_getD word data p (word.length - 1) hocc (by omega)
      have e : p + (word.length - 1) = p + word.length - 1 := by omega
      rw [e] at this; exact this
    simp only [Bool.true_and, isBoundary]
    have s1 : (decide (p < data.length) && isWordByte (data.getD p 0)) = true := by
      rw [g0, hfirst]; simpa using o2
    have s2 : (decide (0 < p + word.length) && isWordByte (data.getD (p + word.length - 1) 0)) = true := by
      rw [gl, hlast]; simp; omega
    rw [s1, s2]
    congr 1
    · cases hp : decide (0 < p) with
      | false =>
        have : p = 0 := by simpa using hp
        subst this; simp
      | true =>
        have hp' : 0 < p := by simpa using hp
        have : (p == 0) = false := by simp; omega
        simp [this]
    · cases he : decide (p + word.length < data.length) with
      | false =>
        have : p + word.length = data.length := by
          have : ¬ (p + word.length < data.length) := by simpa using he
          omega
        simp [this]
      | true =>
        have he' : p + word.length < data.length := by simpa using he
        have : (p + word.length == data.length) = false := by simp; omega
        simp [this]

end ZoektModel.C01
