/-
C01 — L4: `nextFileIndex`, the `candidates` loop, and the invariant of `ngramDocIterator` along a search.
-/
import ZoektModel.C01.Postings
namespace ZoektModel.C01

/-! ### `nextFileIndex` -/

/-- `ends` is non-decreasing -/
def Mono (ends : List Nat) : Prop := ∀ j k, j ≤ k → k < ends.length → ends.getD j 0 ≤ ends.getD k 0

theorem nextFileIndexAux_spec (offset : Nat) (ends : List Nat) (hm : Mono ends) (f d : Nat) : 0 < d →
    (f ≤ nextFileIndexAux offset ends f d ∧
    (∀ j, f ≤ j → j < nextFileIndexAux offset ends f d → ends.getD j 0 ≤ offset) ∧
    (nextFileIndexAux offset ends f d < ends.length → offset < ends.getD (nextFileIndexAux offset ends f d) 0)) := by
  fun_induction nextFileIndexAux offset ends f d with
  | case1 f h h2 => intro hpos; omega
  | case2 f d h h2 hd ih =>
    intro hpos
    obtain ⟨i1, i2, i3⟩ := ih (by omega)
    refine ⟨by omega, fun j a b => ?_, i3⟩
    by_cases hj : j < f + d
    · exact Nat.le_trans (hm j (f + d) (by omega) h2.1) h2.2
    · exact i2 j (by omega) b
  | case3 f d h h2 hd ih =>
    intro hpos
    exact ih (by omega)
  | case4 f d h h2 hd ih =>
    intro hpos
    obtain ⟨i1, i2, i3⟩ := ih hpos
    refine ⟨by omega, fun j a b => ?_, i3⟩
    by_cases hj : j = f
    · subst hj; exact h.2
    · exact i2 j (by omega) b
  | case5 f d h =>
    intro _
    refine ⟨Nat.le_refl _, fun j a b => by omega, fun hl => ?_⟩
    have : ¬ (ends.getD f 0 ≤ offset) := fun hle => h ⟨hl, hle⟩
    omega

theorem nextFileIndex_spec (offset f : Nat) (ends : List Nat) (hm : Mono ends) :
    f ≤ nextFileIndex offset f ends ∧
    (∀ j, f ≤ j → j < nextFileIndex offset f ends → ends.getD j 0 ≤ offset) ∧
    (nextFileIndex offset f ends < ends.length → offset < ends.getD (nextFileIndex offset f ends) 0) :=
  nextFileIndexAux_spec offset ends hm f 1 (by omega)


/-! ### consuming the head shrinks the iterator (fuel of the `candidates` loop) -/

theorem Dist.next_head_size (z : Dist) (hz : z.WF) (hp : z.i1.first ≠ maxU32) :
    ((Hit.dist z).next z.i1.first).size < (Hit.dist z).size := by
  obtain ⟨y, hy1, hy2, he⟩ : ∃ y : Dist, y.i1 = z.i1.next z.i1.first ∧
      y.i2 = z.i2.next (if z.i1.first + z.d > maxU32 then maxU32 else z.i1.first + z.d) ∧
      (Hit.dist z).next z.i1.first = Hit.dist (Dist.findNext y.fuel y) :=
    ⟨⟨z.i1.next z.i1.first, z.i2.next (if z.i1.first + z.d > maxU32 then maxU32 else z.i1.first + z.d), z.d, z.started⟩,
      rfl, rfl, rfl⟩
  rw [he]
  have hwy : y.WF := by
    refine ⟨?_, ?_, ?_, ?_⟩
    · rw [hy1]; exact z.i1.next_sorted _ hz.s1
    · rw [hy2]; exact z.i2.next_sorted _ hz.s2
    · rw [hy1]; exact z.i1.next_bounded _ hz.b1
    · rw [hy2]; exact z.i2.next_bounded _ hz.b2
  obtain ⟨_, _, r3, _, _, _⟩ := Dist.findNext_props y.fuel y hwy
  have a := z.i1.size_next_first_lt z.i1.first hp (Nat.le_refl _)
  have b := z.i2.size_next_le (if z.i1.first + z.d > maxU32 then maxU32 else z.i1.first + z.d)
  show (Dist.findNext y.fuel y).i1.size + (Dist.findNext y.fuel y).i2.size < z.i1.size + z.i2.size
  simp only [Dist.size, hy1, hy2] at r3
  omega

theorem Hit.first_next_size (h : Hit) (hw : h.WF) (hp : h.first.1 ≠ maxU32) :
    (h.first.2.next h.first.1).size < h.first.2.size := by
  cases h with
  | basic b =>
    have e : (Hit.basic b).first = (b.first, Hit.basic b) := rfl
    rw [e] at hp ⊢
    exact b.size_next_first_lt b.first hp (Nat.le_refl _)
  | dist x =>
    have hx : x.WF := hw.1
    by_cases hs : x.started = true
    · have e : (Hit.dist x).first = (x.i1.first, Hit.dist x) := by simp [Hit.first, hs]
      rw [e] at hp ⊢
      exact Dist.next_head_size x hx hp
    · have e : (Hit.dist x).first =
          ((Dist.findNext x.fuel x).i1.first, Hit.dist { Dist.findNext x.fuel x with started := true }) := by
        simp [Hit.first, hs]
      rw [e] at hp ⊢
      have hwf := Dist.findNext_wf x.fuel x hx
      exact Dist.next_head_size { Dist.findNext x.fuel x with started := true } ⟨hwf.s1, hwf.s2, hwf.b1, hwf.b2⟩ hp

/-! ### the `candidates` loop -/

theorem candLoop_spec (lp rp fs fe : Nat) (hfe : fe < maxU32) : ∀ (fuel : Nat) (it : Hit) (acc : List Nat),
    it.WF → it.size < fuel →
    (candLoop lp rp fs fe fuel it acc).2.WF ∧
    (∀ q, (candLoop lp rp fs fe fuel it acc).2.has q ↔ (it.has q ∧ fe ≤ q)) ∧
    (∀ x, x ∈ acc → x ∈ (candLoop lp rp fs fe fuel it acc).1) ∧
    (∀ q, it.has q → q < fe → lp + fs ≤ q → q + rp ≤ fe → (q - fs - lp) ∈ (candLoop lp rp fs fe fuel it acc).1) := by
  intro fuel
  induction fuel with
  | zero => intro it acc _ hf; omega
  | succ fuel ih =>
    intro it acc hw hf
    obtain ⟨w1, i1, s1, m1⟩ := it.first_spec hw
    have hsz := it.first_next_size hw
    rw [candLoop]
    generalize hfirst : it.first = fr at w1 i1 s1 m1 hsz
    obtain ⟨p1, it1⟩ := fr
    simp only at w1 i1 s1 m1 hsz
    simp only []
    by_cases hstop : p1 = maxU32 ∨ p1 ≥ fe
    · simp only [hstop, if_true]
      refine ⟨w1, fun q => ?_, fun x hx => by simpa using hx, fun q hq hlt _ _ => ?_⟩
      · rw [i1 q]
        constructor
        · intro hq
          refine ⟨hq, ?_⟩
          rcases m1 with ⟨_, b⟩ | ⟨_, b⟩
          · exact absurd hq (b q)
          · have := b q hq
            rcases hstop with h | h
            · -- p1 = sentinel cannot be held: it is the minimum of real offsets
              omega
            · omega
        · intro hq; exact hq.1
      · exfalso
        rcases m1 with ⟨_, b⟩ | ⟨a, b⟩
        · exact b q hq
        · have := b q hq
          rcases hstop with h | h <;> omega
    · simp only [hstop, if_false]
      have hp1 : p1 ≠ maxU32 := fun h => hstop (Or.inl h)
      have hp1fe : p1 < fe := by
        apply Classical.byContradiction; intro h; exact hstop (Or.inr (by omega))
      obtain ⟨w2, i2, _⟩ := it1.next_spec w1 p1 hp1
      have hsz2 := hsz hp1
      have hmin : ∀ q, it.has q → p1 ≤ q := by
        rcases m1 with ⟨a, _⟩ | ⟨_, b⟩
        · exact absurd a hp1
        · exact b
      have hasp1 : it.has p1 := by
        rcases m1 with ⟨a, _⟩ | ⟨a, _⟩
        · exact absurd a hp1
        · exact a
      have hiff : ∀ acc', ∀ q, (candLoop lp rp fs fe fuel (it1.next p1) acc').2.has q ↔ (it.has q ∧ fe ≤ q) := by
        intro acc' q
        obtain ⟨_, j, _, _⟩ := ih (it1.next p1) acc' w2 (by omega)
        rw [j q, i2 q, i1 q]
        constructor
        · intro ⟨⟨a, _⟩, c⟩; exact ⟨a, c⟩
        · intro ⟨a, c⟩; exact ⟨⟨a, by omega⟩, c⟩
      by_cases hwin : p1 < lp + fs ∨ p1 + rp > fe
      · simp only [hwin, if_true]
        obtain ⟨j1, _, j3, j4⟩ := ih (it1.next p1) acc w2 (by omega)
        refine ⟨j1, hiff acc, j3, fun q hq hlt h3 h4 => ?_⟩
        have hle := hmin q hq
        have hne : p1 ≠ q := by
          intro e; subst e; rcases hwin with h | h <;> omega
        exact j4 q ((i2 q).mpr ⟨(i1 q).mpr hq, by omega⟩) hlt h3 h4
      · simp only [hwin, if_false]
        obtain ⟨j1, _, j3, j4⟩ := ih (it1.next p1) ((p1 - fs - lp) :: acc) w2 (by omega)
        refine ⟨j1, hiff _, fun x hx => j3 x (List.mem_cons_of_mem _ hx), fun q hq hlt h3 h4 => ?_⟩
        have hle := hmin q hq
        by_cases he : p1 = q
        · subst he; exact j3 _ List.mem_cons_self
        · exact j4 q ((i2 q).mpr ⟨(i1 q).mpr hq, by omega⟩) hlt h3 h4


/-- the candidates come out in strictly increasing order -/
theorem candLoop_sorted (lp rp fs fe : Nat) : ∀ (fuel : Nat) (it : Hit) (acc : List Nat),
    it.WF → it.size < fuel → acc.Pairwise (· > ·) → (∀ e, e ∈ acc → ∀ q, it.has q → e + fs + lp < q) →
    (candLoop lp rp fs fe fuel it acc).1.Pairwise (· < ·) := by
  intro fuel
  induction fuel with
  | zero => intro it acc _ hf; omega
  | succ fuel ih =>
    intro it acc hw hf hacc hinv
    obtain ⟨w1, i1, s1, m1⟩ := it.first_spec hw
    have hsz := it.first_next_size hw
    rw [candLoop]
    generalize hfirst : it.first = fr at w1 i1 s1 m1 hsz
    obtain ⟨p1, it1⟩ := fr
    simp only at w1 i1 s1 m1 hsz
    simp only []
    by_cases hstop : p1 = maxU32 ∨ p1 ≥ fe
    · simp only [hstop, if_true]
      exact List.pairwise_reverse.mpr hacc
    · simp only [hstop, if_false]
      have hp1 : p1 ≠ maxU32 := fun h => hstop (Or.inl h)
      obtain ⟨w2, i2, _⟩ := it1.next_spec w1 p1 hp1
      have hsz2 := hsz hp1
      have hasp1 : it.has p1 := by
        rcases m1 with ⟨a, _⟩ | ⟨a, _⟩
        · exact absurd a hp1
        · exact a
      have hsub : ∀ q, (it1.next p1).has q → it.has q ∧ p1 < q := by
        intro q hq
        have := (i2 q).mp hq
        exact ⟨(i1 q).mp this.1, this.2⟩
      by_cases hwin : p1 < lp + fs ∨ p1 + rp > fe
      · simp only [hwin, if_true]
        exact ih (it1.next p1) acc w2 (by omega) hacc (fun e he q hq => hinv e he q (hsub q hq).1)
      · simp only [hwin, if_false]
        refine ih (it1.next p1) ((p1 - fs - lp) :: acc) w2 (by omega) ?_ ?_
        · refine List.pairwise_cons.mpr ⟨fun e he => ?_, hacc⟩
          have := hinv e he p1 hasp1
          omega
        · intro e he q hq
          have hq' := hsub q hq
          rcases List.mem_cons.mp he with h | h
          · subst h; omega
          · exact hinv e h q hq'.1

/-- two strictly increasing lists with the same elements are equal -/
theorem sorted_ext : ∀ (l1 l2 : List Nat), l1.Pairwise (· < ·) → l2.Pairwise (· < ·) →
    (∀ x, x ∈ l1 ↔ x ∈ l2) → l1 = l2 := by
  intro l1
  induction l1 with
  | nil =>
    intro l2 _ _ h
    cases l2 with
    | nil => rfl
    | cons b t => exact absurd ((h b).mpr List.mem_cons_self) (by simp)
  | cons a t ih =>
    intro l2 h1 h2 h
    cases l2 with
    | nil => exact absurd ((h a).mp List.mem_cons_self) (by simp)
    | cons b t2 =>
      have ha := List.pairwise_cons.mp h1
      have hb := List.pairwise_cons.mp h2
      have hab : a = b := by
        have m1 := (h a).mp List.mem_cons_self
        have m2 := (h b).mpr List.mem_cons_self
        rcases List.mem_cons.mp m1 with e | e
        · exact e
        · rcases List.mem_cons.mp m2 with e2 | e2
          · exact e2.symm
          · have := hb.1 a e; have := ha.1 b e2; omega
      subst hab
      congr 1
      apply ih t2 ha.2 hb.2
      intro x
      constructor
      · intro hx
        rcases List.mem_cons.mp ((h x).mp (List.mem_cons_of_mem _ hx)) with e | e
        · subst e; have := ha.1 x hx; omega
        · exact e
      · intro hx
        rcases List.mem_cons.mp ((h x).mpr (List.mem_cons_of_mem _ hx)) with e | e
        · subst e; have := hb.1 x hx; omega
        · exact e

/-! ### the invariant of `ngramDocIterator` along a search -/

/-- the pattern occurs at rune offset `o` of document `d` -/
def occAt (pat : List Nat) (texts : List (List Nat)) (d o : Nat) : Prop :=
  pat.isPrefixOf ((texts.getD d []).drop o) = true

theorem occAt_bound (pat : List Nat) (texts : List (List Nat)) (d o : Nat) (hp : 0 < pat.length)
    (h : occAt pat texts d o) : o + pat.length ≤ (texts.getD d []).length := by
  have := (List.isPrefixOf_iff_prefix.mp h).length_le
  rw [List.length_drop] at this
  omega

theorem endsOf_mono (texts : List (List Nat)) : Mono (endsOf texts) := by
  intro j k hjk hk
  simp only [endsOf, endsFrom_length] at hk
  simp only [endsOf]
  rw [endsFrom_getD texts 0 j (by omega), endsFrom_getD texts 0 k hk]
  exact baseFrom_mono texts 0 _ _ (by omega)

theorem endsOf_getD (texts : List (List Nat)) (d : Nat) (hd : d < texts.length) :
    (endsOf texts).getD d 0 = baseOf texts (d + 1) := endsFrom_getD texts 0 d hd

theorem baseOf_succ (texts : List (List Nat)) (d : Nat) (hd : d < texts.length) :
    baseOf texts (d + 1) = baseOf texts d + (texts.getD d []).length := baseFrom_succ texts 0 d hd

/-- state of the document iterator of a substring leaf (pattern `pat`, first selected trigram at index `i`) when every
    document below `L` has been dealt with: no occurrence in a document `≥ L` has been consumed -/
structure DocIter.Inv (texts : List (List Nat)) (pat : List Nat) (i L : Nat) (it : DocIter) : Prop where
  lp : it.leftPad = i
  rp : it.rightPad = pat.length - i
  ends : it.ends = endsOf texts
  wf : it.iter.WF
  keep : ∀ d o, L ≤ d → d < texts.length → occAt pat texts d o → it.iter.has (baseOf texts d + o + i)
  fi : ∀ d, L ≤ d → d < it.fileIdx → d < texts.length → ∀ o, ¬ occAt pat texts d o

/-- **`nextDoc` of the document iterator is sound** and keeps the invariant -/
theorem DocIter.nextDoc_inv (texts : List (List Nat)) (pat : List Nat) (i L : Nat) (it : DocIter)
    (hi : i + 3 ≤ pat.length) (h : it.Inv texts pat i L) :
    it.nextDoc.2.Inv texts pat i L ∧
    ∀ d, L ≤ d → d < it.nextDoc.1 → d < texts.length → ∀ o, ¬ occAt pat texts d o := by
  obtain ⟨w1, i1, _, m1⟩ := it.iter.first_spec h.wf
  have hmono : Mono it.ends := by rw [h.ends]; exact endsOf_mono texts
  obtain ⟨n1, n2, n3⟩ := nextFileIndex_spec it.iter.first.1 it.fileIdx it.ends hmono
  have hlen : it.ends.length = texts.length := by rw [h.ends]; exact endsFrom_length texts 0
  -- the new fileIdx never jumps over an occurrence
  have hfi : ∀ d, L ≤ d → d < nextFileIndex it.iter.first.1 it.fileIdx it.ends → d < texts.length →
      ∀ o, ¬ occAt pat texts d o := by
    intro d hL hd hdn o hocc
    by_cases hold : d < it.fileIdx
    · exact h.fi d hL hold hdn o hocc
    · have hle := n2 d (by omega) hd
      have hb := occAt_bound pat texts d o (by omega) hocc
      rw [h.ends, endsOf_getD texts d hdn, baseOf_succ texts d hdn] at hle
      have hq := h.keep d o hL hdn hocc
      rcases m1 with ⟨_, b⟩ | ⟨_, b⟩
      · exact b _ hq
      · have := b _ hq; omega
  have hinv : DocIter.Inv texts pat i L
      { it with iter := it.iter.first.2, fileIdx := nextFileIndex it.iter.first.1 it.fileIdx it.ends } :=
    ⟨h.lp, h.rp, h.ends, w1, fun d o a b c => (i1 _).mpr (h.keep d o a b c), hfi⟩
  have e : it.nextDoc =
      (if nextFileIndex it.iter.first.1 it.fileIdx it.ends ≥ it.ends.length then maxU32
        else nextFileIndex it.iter.first.1 it.fileIdx it.ends,
       { it with iter := it.iter.first.2, fileIdx := nextFileIndex it.iter.first.1 it.fileIdx it.ends }) := by
    simp only [DocIter.nextDoc]
    split <;> rfl
  rw [e]
  refine ⟨hinv, fun d hL hd hdn => ?_⟩
  simp only at hd
  apply hfi d hL ?_ hdn
  by_cases hge : nextFileIndex it.iter.first.1 it.fileIdx it.ends ≥ it.ends.length
  · omega
  · simp only [hge, if_false] at hd; exact hd

/-- **`docIter_candidates_complete`** (one step of the search): preparing the iterator for a document `d ≥ L` and taking
    its candidates yields every offset at which the pattern occurs in `d`, and the invariant for `d + 1` -/
theorem DocIter.prepare_candidates (texts : List (List Nat)) (pat : List Nat) (i L : Nat) (it : DocIter)
    (hi : i + 3 ≤ pat.length) (hsz : totalLen texts + pat.length < maxU32) (h : it.Inv texts pat i L)
    (d : Nat) (hL : L ≤ d) (hd : d < texts.length) :
    (∀ o, occAt pat texts d o → o ∈ (it.prepare d).candidates.1) ∧
    (it.prepare d).candidates.2.Inv texts pat i (d + 1) := by
  have hlen : it.ends.length = texts.length := by rw [h.ends]; exact endsFrom_length texts 0
  -- the start of the document
  have hstart : (if d > 0 then it.ends.getD (d - 1) 0 else 0) = baseOf texts d := by
    by_cases hd0 : d > 0
    · simp only [hd0, if_true]
      rw [h.ends, endsOf_getD texts (d - 1) (by omega)]
      congr 1; omega
    · have : d = 0 := by omega
      subst this; simp [baseOf, baseFrom]
  have hbt : baseOf texts d ≤ totalLen texts := by
    have := baseFrom_le_total texts 0 d; simpa [baseOf] using this
  have hbt1 : baseOf texts (d + 1) ≤ totalLen texts := by
    have := baseFrom_le_total texts 0 (d + 1); simpa [baseOf] using this
  -- the iterator after `prepare`
  obtain ⟨it1, hit1, hw1, hk1⟩ : ∃ it1 : Hit, (it.prepare d).iter = it1 ∧ it1.WF ∧
      ∀ d' o, d ≤ d' → d' < texts.length → occAt pat texts d' o → it1.has (baseOf texts d' + o + i) := by
    simp only [DocIter.prepare, hstart]
    by_cases hs : baseOf texts d > 0
    · simp only [hs, if_true]
      obtain ⟨w, j, _⟩ := it.iter.next_spec h.wf (baseOf texts d + it.leftPad - 1) (by rw [h.lp]; omega)
      refine ⟨_, rfl, w, fun d' o a b c => (j _).mpr ⟨h.keep d' o (by omega) b c, ?_⟩⟩
      have := baseFrom_mono texts 0 d d' a
      simp only [baseOf] at hs ⊢
      rw [h.lp]; omega
    · simp only [hs, if_false]
      exact ⟨_, rfl, h.wf, fun d' o a b c => h.keep d' o (by omega) b c⟩
  have hfidx : (it.prepare d).fileIdx = d := by simp [DocIter.prepare]
  have hends : (it.prepare d).ends = it.ends := by simp [DocIter.prepare]
  have hlp : (it.prepare d).leftPad = it.leftPad := by simp [DocIter.prepare]
  have hrp : (it.prepare d).rightPad = it.rightPad := by simp [DocIter.prepare]
  have hfe : it.ends.getD d 0 = baseOf texts (d + 1) := by rw [h.ends]; exact endsOf_getD texts d hd
  obtain ⟨c1, c2, _, c4⟩ := candLoop_spec it.leftPad it.rightPad (baseOf texts d) (baseOf texts (d + 1)) (by omega)
    (it1.size + 1) it1 [] hw1 (by omega)
  have e : (it.prepare d).candidates =
      ((candLoop it.leftPad it.rightPad (baseOf texts d) (baseOf texts (d + 1)) (it1.size + 1) it1 []).1,
       { it.prepare d with iter :=
          (candLoop it.leftPad it.rightPad (baseOf texts d) (baseOf texts (d + 1)) (it1.size + 1) it1 []).2 }) := by
    simp only [DocIter.candidates, hfidx, hends, hlp, hrp, hit1, hstart, hfe]
    have : ¬ (d ≥ it.ends.length) := by omega
    simp only [this, if_false]
  rw [e]
  refine ⟨fun o hocc => ?_, ?_⟩
  · have hb := occAt_bound pat texts d o (by omega) hocc
    have hs := baseOf_succ texts d hd
    have := c4 _ (hk1 d o (Nat.le_refl _) hd hocc) (by omega) (by rw [h.lp]; omega) (by rw [h.rp]; omega)
    have e2 : baseOf texts d + o + i - baseOf texts d - it.leftPad = o := by rw [h.lp]; omega
    rwa [e2] at this
  · refine ⟨by simpa [DocIter.prepare] using h.lp, by simpa [DocIter.prepare] using h.rp,
      by simpa [DocIter.prepare] using h.ends, c1, fun d' o a b c => ?_, fun d' a b => ?_⟩
    · refine (c2 _).mpr ⟨hk1 d' o (by omega) b c, ?_⟩
      have := baseFrom_mono texts 0 (d + 1) d' a
      simp only [baseOf]; omega
    · simp only [DocIter.prepare] at b; omega


/-- `next(limit)` keeps the iterator well-formed, for every limit (the sentinel included) -/
theorem Hit.next_wf (h : Hit) (hw : h.WF) (limit : Nat) : (h.next limit).WF := by
  cases h with
  | basic b =>
    have hb : b.Sorted ∧ b.Bounded := hw
    exact ⟨b.next_sorted _ hb.1, b.next_bounded _ hb.2⟩
  | dist x =>
    have hx : x.WF := hw.1
    obtain ⟨y, hy1, hy2, he⟩ : ∃ y : Dist, y.i1 = x.i1.next limit ∧
        y.i2 = x.i2.next (if limit + x.d > maxU32 then maxU32 else limit + x.d) ∧
        (Hit.dist x).next limit = Hit.dist (Dist.findNext y.fuel y) :=
      ⟨⟨x.i1.next limit, x.i2.next (if limit + x.d > maxU32 then maxU32 else limit + x.d), x.d, x.started⟩,
        rfl, rfl, rfl⟩
    rw [he]
    have hwy : y.WF := by
      refine ⟨?_, ?_, ?_, ?_⟩
      · rw [hy1]; exact x.i1.next_sorted _ hx.s1
      · rw [hy2]; exact x.i2.next_sorted _ hx.s2
      · rw [hy1]; exact x.i1.next_bounded _ hx.b1
      · rw [hy2]; exact x.i2.next_bounded _ hx.b2
    exact ⟨Dist.findNext_wf y.fuel y hwy,
      fun _ => Dist.findNext_settled y hwy y.fuel (by simp only [Dist.fuel, Dist.size]; omega)⟩

/-- the candidates of a document are strictly increasing rune offsets -/
theorem DocIter.candidates_sorted (it : DocIter) (hw : it.iter.WF) (d : Nat) :
    (it.prepare d).candidates.1.Pairwise (· < ·) := by
  have hw' : (it.prepare d).iter.WF := by
    simp only [DocIter.prepare]
    generalize (if d > 0 then it.ends.getD (d - 1) 0 else 0) = start
    by_cases hs : start > 0
    · simp only [hs, if_true]; exact it.iter.next_wf hw _
    · simp only [hs, if_false]; exact hw
  simp only [DocIter.candidates]
  split
  · simp
  · exact candLoop_sorted _ _ _ _ _ _ [] hw' (by omega) (by simp) (fun e he => by simp at he)

/-! ### the iterator `iterateNgrams` builds, for any choice `i ≤ j` of the two trigram positions -/

/-- the hit iterator over the postings of the pattern's `i`-th trigram (and, when `i ≠ j`, its `j`-th trigram at
    distance `j - i`) — case-sensitive: one posting list per trigram -/
def mkHit (texts : List (List Nat)) (pat : List Nat) (i j : Nat) : Hit :=
  if i = j then .basic [post (tri pat i) texts]
  else .dist ⟨[post (tri pat i) texts], [post (tri pat j) texts], j - i, false⟩

/-- the `ngramDocIterator` of a case-sensitive substring leaf, as `iterateNgrams` sets it up -/
def mkIter (texts : List (List Nat)) (pat : List Nat) (i j : Nat) : DocIter :=
  { leftPad := i, rightPad := pat.length - i, iter := mkHit texts pat i j, ends := endsOf texts, fileIdx := 0 }

theorem single_sorted (g : List Nat) (texts : List (List Nat)) : Basic.Sorted [post g texts] := by
  intro l hl; simp at hl; subst hl; exact postFrom_sorted g texts 0

theorem single_bounded (g : List Nat) (texts : List (List Nat)) (h : totalLen texts < maxU32) :
    Basic.Bounded [post g texts] := by
  intro p ⟨l, hl, hp⟩
  simp at hl; subst hl
  have := postFrom_range g texts 0 p hp
  omega

theorem single_mem (g : List Nat) (texts : List (List Nat)) (q : Nat) (h : q ∈ post g texts) :
    Basic.mem [post g texts] q := ⟨_, by simp, h⟩

theorem mkIter_inv (texts : List (List Nat)) (pat : List Nat) (i j : Nat) (hij : i ≤ j) (hj : j + 3 ≤ pat.length)
    (hsz : totalLen texts + pat.length < maxU32) : (mkIter texts pat i j).Inv texts pat i 0 := by
  refine ⟨rfl, rfl, rfl, ?_, ?_, fun d _ hd => by simp [mkIter] at hd⟩
  · simp only [mkIter, mkHit]
    by_cases he : i = j
    · simp only [he, if_true]
      exact ⟨single_sorted _ _, single_bounded _ _ (by omega)⟩
    · simp only [he, if_false]
      exact ⟨⟨single_sorted _ _, single_sorted _ _, single_bounded _ _ (by omega), single_bounded _ _ (by omega)⟩,
        fun h => by simp at h⟩
  · intro d o _ hd hocc
    have h1 := post_complete texts pat d o i hd hocc (by omega)
    have h2 := post_complete texts pat d o j hd hocc hj
    simp only [mkIter, mkHit]
    by_cases he : i = j
    · simp only [he, if_true]
      subst he
      exact single_mem _ _ _ h1
    · simp only [he, if_false]
      refine ⟨single_mem _ _ _ h1, single_mem _ _ _ ?_⟩
      have e : baseOf texts d + o + i + (j - i) = baseOf texts d + o + j := by omega
      show baseOf texts d + o + i + (j - i) ∈ post (tri pat j) texts
      rw [e]; exact h2

/-- drive the iterator the way the search loop drives a substring leaf: for each visited document, `nextDoc`
    (peek), `prepare`, `candidates` -/
def DocIter.drive (it : DocIter) : List Nat → List (Nat × List Nat)
  | [] => []
  | d :: ds => (d, ((it.nextDoc.2).prepare d).candidates.1) :: (((it.nextDoc.2).prepare d).candidates.2).drive ds

theorem DocIter.drive_complete (texts : List (List Nat)) (pat : List Nat) (i : Nat) (hi : i + 3 ≤ pat.length)
    (hsz : totalLen texts + pat.length < maxU32) : ∀ (docs : List Nat) (L : Nat) (it : DocIter),
    it.Inv texts pat i L → docs.Pairwise (· < ·) → (∀ d, d ∈ docs → L ≤ d ∧ d < texts.length) →
    ∀ d cs, (d, cs) ∈ it.drive docs → ∀ o, occAt pat texts d o → o ∈ cs := by
  intro docs
  induction docs with
  | nil => intro L it _ _ _ d cs h; simp [DocIter.drive] at h
  | cons d0 ds ih =>
    intro L it hinv hsorted hrange d cs hmem o hocc
    obtain ⟨n1, _⟩ := it.nextDoc_inv texts pat i L hi hinv
    obtain ⟨hL, hd0⟩ := hrange d0 List.mem_cons_self
    obtain ⟨p1, p2⟩ := DocIter.prepare_candidates texts pat i L it.nextDoc.2 hi hsz n1 d0 hL hd0
    simp only [DocIter.drive, List.mem_cons] at hmem
    rcases hmem with e | hmem
    · obtain ⟨e1, e2⟩ := Prod.mk.inj e
      subst e1; subst e2
      exact p1 o hocc
    · have hs := List.pairwise_cons.mp hsorted
      exact ih (d0 + 1) _ p2 hs.2
        (fun x hx => ⟨by have := hs.1 x hx; omega, (hrange x (List.mem_cons_of_mem _ hx)).2⟩) d cs hmem o hocc

end ZoektModel.C01
