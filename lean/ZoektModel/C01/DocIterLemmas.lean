/-
C01 — L4: `nextFileIndex`, the `candidates` loop, and the invariant of `ngramDocIterator` along a search.
-/
import ZoektModel.C01.Postings
namespace ZoektModel.C01

/-! ### `nextFileIndex` -/

/-- `ends` is non-decreasing -/
def Mono (ends : List Nat) : Prop := ∀ j k, j ≤ k → k < ends.length → ends.getD j 0 ≤ ends.getD k 0

theorem nextFileIndexAux_spec (offset : Nat) (ends : List Nat) (hm : Mono ends) (f d : Nat) : 0 < d →
    (f ≤ nextFileIndexAux offset ends f d ∧
    (∀ j, f ≤ j → j < nextFileIndexAux offset ends f d → ends.getD j 0 ≤ offset) ∧
    (nextFileIndexAux offset ends f d < ends.length → offset < ends.getD (nextFileIndexAux offset ends f d) 0)) := by
  fun_induction nextFileIndexAux offset ends f d with
  | case1 f h h2 => intro hpos; omega
  | case2 f d h h2 hd ih =>
    intro hpos
    obtain ⟨i1, i2, i3⟩ := ih (by omega)
    refine ⟨by omega, fun j a b => ?_, i3⟩
    by_cases hj : j < f + d
    · exact Nat.le_trans (hm j (f + d) (by omega) h2.1) h2.2
    · exact i2 j (by omega) b
  | case3 f d h h2 hd ih =>
    intro hpos
    exact ih (by omega)
  | case4 f d h h2 hd ih =>
    intro hpos
    obtain ⟨i1, i2, i3⟩ := ih hpos
    refine ⟨by omega, fun j a b => ?_, i3⟩
    by_cases hj : j = f
    · subst hj; exact h.2
    · exact i2 j (by omega) b
  | case5 f d h =>
    intro _
    refine ⟨Nat.le_refl _, fun j a b => by omega, fun hl => ?_⟩
    have : ¬ (ends.getD f 0 ≤ offset) := fun hle => h ⟨hl, hle⟩
    omega

theorem nextFileIndex_spec (offset f : Nat) (ends : List Nat) (hm : Mono ends) :
    f ≤ nextFileIndex offset f ends ∧
    (∀ j, f ≤ j → j < nextFileIndex offset f ends → ends.getD j 0 ≤ offset) ∧
    (nextFileIndex offset f ends < ends.length → offset < ends.getD (nextFileIndex offset f ends) 0) :=
  nextFileIndexAux_spec offset ends hm f 1 (by omega)


/-! ### consuming the head shrinks the iterator (fuel of the `candidates` loop) -/

theorem Dist.next_head_size (z : Dist) (hz : z.WF) (hp : z.i1.first ≠ maxU32) :
    ((Hit.dist z).next z.i1.first).size < (Hit.dist z).size := by
  obtain ⟨y, hy1, hy2, he⟩ : ∃ y : Dist, y.i1 = z.i1.next z.i1.first ∧
      y.i2 = z.i2.next (if z.i1.first + z.d > maxU32 then maxU32 else z.i1.first + z.d) ∧
      (Hit.dist z).next z.i1.first = Hit.dist (Dist.findNext y.fuel y) :=
    ⟨⟨z.i1.next z.i1.first, z.i2.next (if z.i1.first + z.d > maxU32 then maxU32 else z.i1.first + z.d), z.d, z.started⟩,
      rfl, rfl, rfl⟩
  rw [he]
  have hwy : y.WF := by
    refine ⟨?_, ?_, ?_, ?_⟩
    · rw [hy1]; exact z.i1.next_sorted _ hz.s1
    · rw [hy2]; exact z.i2.next_sorted _ hz.s2
    · rw [hy1]; exact z.i1.next_bounded _ hz.b1
    · rw [hy2]; exact z.i2.next_bounded _ hz.b2
  obtain ⟨_, _, r3, _, _, _⟩ := Dist.findNext_props y.fuel y hwy
  have a := z.i1.size_next_first_lt z.i1.first hp (Nat.le_refl _)
  have b := z.i2.size_next_le (if z.i1.first + z.d > maxU32 then maxU32 else z.i1.first + z.d)
  show (Dist.findNext y.fuel y).i1.size + (Dist.findNext y.fuel y).i2.size < z.i1.size + z.i2.size
  simp only [Dist.size, hy1, hy2] at r3
  omega

theorem Hit.first_next_size (h : Hit) (hw : h.WF) (hp : h.first.1 ≠ maxU32) :
    (h.first.2.next h.first.1).size < h.first.2.size := by
  cases h with
  | basic b =>
    have e : (Hit.basic b).first = (b.first, Hit.basic b) := rfl
    rw [e] at hp ⊢
    exact b.size_next_first_lt b.first hp (Nat.le_refl _)
  | dist x =>
    have hx : x.WF := hw.1
    by_cases hs : x.started = true
    · have e : (Hit.dist x).first = (x.i1.first, Hit.dist x) := by simp [Hit.first, hs]
      rw [e] at hp ⊢
      exact Dist.next_head_size x hx hp
    · have e : (Hit.dist x).first =
          ((Dist.findNext x.fuel x).i1.first, Hit.dist { Dist.findNext x.fuel x with started := true }) := by
        simp [Hit.first, hs]
      rw [e] at hp ⊢
      have hwf := Dist.findNext_wf x.fuel x hx
      exact Dist.next_head_size { Dist.findNext x.fuel x with started := true } ⟨hwf.s1, hwf.s2, hwf.b1, hwf.b2⟩ hp

/-! ### the `candidates` loop -/

theorem candLoop_spec (lp rp fs fe : Nat) (hfe : fe < maxU32) : ∀ (fuel : Nat) (it : Hit) (acc : List Nat),
    it.WF → it.size < fuel →
    (candLoop lp rp fs fe fuel it acc).2.WF ∧
    (∀ q, (candLoop lp rp fs fe fuel it acc).2.has q ↔ (it.has q ∧ fe ≤ q)) ∧
    (∀ x, x ∈ acc → x ∈ (candLoop lp rp fs fe fuel it acc).1) ∧
    (∀ q, it.has q → q < fe → lp + fs ≤ q → q + rp ≤ fe → (q - fs - lp) ∈ (candLoop lp rp fs fe fuel it acc).1) := by
  intro fuel
  induction fuel with
  | zero => intro it acc _ hf; omega
  | succ fuel ih =>
    intro it acc hw hf
    obtain ⟨w1, i1, s1, m1⟩ := it.first_spec hw
    have hsz := it.first_next_size hw
    rw [candLoop]
    generalize hfirst : it.first = fr at w1 i1 s1 m1 hsz
    obtain ⟨p1, it1⟩ := fr
    simp only at w1 i1 s1 m1 hsz
    simp only []
    by_cases hstop : p1 = maxU32 ∨ p1 ≥ fe
    · simp only [hstop, if_true]
      refine ⟨w1, fun q => ?_, fun x hx => by simpa using hx, fun q hq hlt _ _ => ?_⟩
      · rw [i1 q]
        constructor
        · intro hq
          refine ⟨hq, ?_⟩
          rcases m1 with ⟨_, b⟩ | ⟨_, b⟩
          · exact absurd hq (b q)
          · have := b q hq
            rcases hstop with h | h
            · -- p1 = sentinel cannot be held: it is the minimum of real offsets
              omega
            · omega
        · intro hq; exact hq.1
      · exfalso
        rcases m1 with ⟨_, b⟩ | ⟨a, b⟩
        · exact b q hq
        · have := b q hq
          rcases hstop with h | h <;> omega
    · simp only [hstop, if_false]
      have hp1 : p1 ≠ maxU32 := fun h => hstop (Or.inl h)
      have hp1fe : p1 < fe := by
        apply Classical.byContradiction; intro h; exact hstop (Or.inr (by omega))
      obtain ⟨w2, i2, _⟩ := it1.next_spec w1 p1 hp1
      have hsz2 := hsz hp1
      have hmin : ∀ q, it.has q → p1 ≤ q := by
        rcases m1 with ⟨a, _⟩ | ⟨_, b⟩
        · exact absurd a hp1
        · exact b
      have hasp1 : it.has p1 := by
        rcases m1 with ⟨a, _⟩ | ⟨a, _⟩
        · exact absurd a hp1
        · exact a
      have hiff : ∀ acc', ∀ q, (candLoop lp rp fs fe fuel (it1.next p1) acc').2.has q ↔ (it.has q ∧ fe ≤ q) := by
        intro acc' q
        obtain ⟨_, j, _, _⟩ := ih (it1.next p1) acc' w2 (by omega)
        rw [j q, i2 q, i1 q]
        constructor
        · intro ⟨⟨a, _⟩, c⟩; exact ⟨a, c⟩
        · intro ⟨a, c⟩; exact ⟨⟨a, by omega⟩, c⟩
      by_cases hwin : p1 < lp + fs ∨ p1 + rp > fe
      · simp only [hwin, if_true]
        obtain ⟨j1, _, j3, j4⟩ := ih (it1.next p1) acc w2 (by omega)
        refine ⟨j1, hiff acc, j3, fun q hq hlt h3 h4 => ?_⟩
        have hle := hmin q hq
        have hne : p1 ≠ q := by
          intro e; subst e; rcases hwin with h | h <;> omega
        exact j4 q ((i2 q).mpr ⟨(i1 q).mpr hq, by omega⟩) hlt h3 h4
      · simp only [hwin, if_false]
        obtain ⟨j1, _, j3, j4⟩ := ih (it1.next p1) ((p1 - fs - lp) :: acc) w2 (by omega)
        refine ⟨j1, hiff _, fun x hx => j3 x (List.mem_cons_of_mem _ hx), fun q hq hlt h3 h4 => ?_⟩
        have hle := hmin q hq
        by_cases he : p1 = q
        · subst he; exact j3 _ List.mem_cons_self
        · exact j4 q ((i2 q).mpr ⟨(i1 q).mpr hq, by omega⟩) hlt h3 h4

end ZoektModel.C01
