/-
C01 — L5: executable model of the trigram selection of `iterateNgrams` (index/indexdata.go: `splitNGrams` order after
`slices.SortFunc`, `indexMap`, `minFrequencyNgramOffsets`, `findSelectiveNgrams`). Core Lean only.
-/
import ZoektModel.C01.Model
namespace ZoektModel.C01

/-- the pattern's trigrams with their positions (`splitNGrams`) -/
def splitTrigrams (pat : List Nat) : List (List Nat × Nat) :=
  (List.range (pat.length - 2)).map (fun k => ((pat.drop k).take 3, k))

def lexLt : List Nat → List Nat → Bool
  | [], [] => false
  | [], _ :: _ => true
  | _ :: _, [] => false
  | a :: as, b :: bs => decide (a < b) || (a == b && lexLt as bs)

/-- `runeNgramOff.Compare`: by ngram (three 21-bit runes packed big-endian = lexicographic), then by index -/
def ngLt (a b : List Nat × Nat) : Bool := lexLt a.1 b.1 || (a.1 == b.1 && decide (a.2 < b.2))

def insertNg (x : List Nat × Nat) : List (List Nat × Nat) → List (List Nat × Nat)
  | [] => [x]
  | y :: ys => if ngLt x y then x :: y :: ys else y :: insertNg x ys

/-- `slices.SortFunc(ngramOffs, runeNgramOff.Compare)` (a total order without ties: the result is unique) -/
def sortNg (l : List (List Nat × Nat)) : List (List Nat × Nat) := l.foldr insertNg []

/-- positions, in sorted order -/
def sortedPositions (pat : List Nat) : List Nat := (sortNg (splitTrigrams pat)).map (·.2)

def indexOfNat (l : List Nat) (k : Nat) : Nat := l.findIdx (· == k)

/-- `indexMap[o.index] = i` -/
def mkIndexMap (perm : List Nat) : List Nat := (List.range perm.length).map (indexOfNat perm)

structure MinSt where
  idx0 : Nat
  idx1 : Nat
  min0 : Nat
  min1 : Nat

/-- one round of the loop of `minFrequencyNgramOffsets` -/
def minStep (st : MinSt) (i x : Nat) : MinSt :=
  if x ≤ st.min0 then ⟨i, st.idx0, x, st.min0⟩
  else if x ≤ st.min1 then ⟨st.idx0, i, st.min0, x⟩
  else st

def minLoop : List Nat → Nat → MinSt → MinSt
  | [], _, st => st
  | x :: xs, i, st => minLoop xs (i + 1) (minStep st i x)

/-- `findSelectiveNgrams`: `perm` = the `index` fields of the sorted `ngramOffs`; returns (first.index, last.index) -/
def findSelective (perm indexMap freqs : List Nat) : Nat × Nat :=
  let st := minLoop freqs 0 ⟨0, 0, maxU32, maxU32⟩
  let a := perm.getD st.idx0 0
  let b := perm.getD st.idx1 0
  let first := if a > b then b else a
  let last := if a > b then a else b
  if last - first < 3 then
    let nf := last - 3
    let first' := if nf ≠ first then perm.getD (indexMap.getD nf 0) 0 else first
    let nl := min (first' + 3) (perm.length - 1)
    let last' := if nl ≠ last then perm.getD (indexMap.getD nl 0) 0 else last
    (first', last')
  else (first, last)

end ZoektModel.C01
