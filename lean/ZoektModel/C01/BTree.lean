/-
C01 — L12: executable model of the in-memory b-tree over the sorted ngram section (index/btree.go: `btree.insert`,
`leaf/innerNode.insert`, `maybeSplit`, `find`, `freeze`) and of `btreeIndex.Get` (bucket read + binary search +
posting-list index). Ngrams are `Nat`. Core Lean only (linked into the driver).
-/
namespace ZoektModel.C01

mutual
inductive BT where
  /-- `leaf`: only the size of the bucket and the key to propagate on a split are kept (as in the Go code) -/
  | leaf (bucketIndex postingOff size splitKey : Nat)
  | inner (keys : List Nat) (children : BTs)
inductive BTs where
  | nil
  | cons (h : BT) (t : BTs)
end

def BTs.toList : BTs → List BT
  | .nil => []
  | .cons h t => h :: t.toList

def BTs.ofList : List BT → BTs
  | [] => .nil
  | h :: t => .cons h (BTs.ofList t)

def modifyAt {α} (f : α → α) : List α → Nat → List α
  | [], _ => []
  | a :: t, 0 => f a :: t
  | a :: t, n + 1 => a :: modifyAt f t n

/-- `maybeSplit(opts)`: `B` = `opts.bucketSize`, `v` = `opts.v` -/
def BT.maybeSplit (B v : Nat) : BT → Option (BT × BT × Nat)
  | .leaf _ _ size sk => if size < B then none else some (.leaf 0 0 (B / 2) 0, .leaf 0 0 (B / 2) 0, sk)
  | .inner keys ch =>
    let cl := ch.toList
    if cl.length < 2 * v then none
    else some (.inner (keys.take (v - 1)) (BTs.ofList (cl.take v)), .inner (keys.drop v) (BTs.ofList (cl.drop v)),
               keys.getD (v - 1) 0)

/-- `node.insert(ng, opts)`; fuel = depth bound (the recursion descends into nodes created by a split) -/
def BT.insert (B v : Nat) : Nat → BT → Nat → BT
  | 0, t, _ => t
  | _ + 1, .leaf bi po size sk, ng => .leaf bi po (size + 1) (if size + 1 = B / 2 + 1 then ng else sk)
  | fuel + 1, .inner keys ch, ng =>
    let cl := ch.toList
    let i := match keys.findIdx? (fun k => decide (ng < k)) with
      | some i => i
      | none => cl.length - 1
    match cl[i]? with
    | none => .inner keys ch
    | some c =>
      match c.maybeSplit B v with
      | some (l, r, k) =>
        let keys' := keys.take i ++ k :: keys.drop i
        let cl' := cl.take i ++ l :: r :: cl.drop (i + 1)
        let i' := if ng ≥ keys'.getD i 0 then i + 1 else i
        .inner keys' (BTs.ofList (modifyAt (fun c => BT.insert B v fuel c ng) cl' i'))
      | none => .inner keys (BTs.ofList (modifyAt (fun c => BT.insert B v fuel c ng) cl i))

/-- `btree.insert(ng)` -/
def btInsert (B v : Nat) (root : BT) (ng : Nat) : BT :=
  let root' := match root.maybeSplit B v with
    | some (l, r, k) => BT.inner [k] (.cons l (.cons r .nil))
    | none => root
  BT.insert B v 64 root' ng

mutual
/-- `find(ng)`: (bucketIndex, postingIndexOffset) of the leaf the search ends in -/
def BT.find (ng : Nat) : BT → Nat × Nat
  | .leaf bi po _ _ => (bi, po)
  | .inner keys ch => BTs.findIn ng keys ch
/-- `for i, k := range keys { if ng < k { return children[i].find(ng) } }; return children[len-1].find(ng)` -/
def BTs.findIn (ng : Nat) : List Nat → BTs → Nat × Nat
  | _, .nil => (0, 0)
  | [], .cons c .nil => c.find ng
  | [], .cons _ (.cons c2 t) => BTs.findIn ng [] (.cons c2 t)
  | k :: ks, .cons c rest => if ng < k then c.find ng else BTs.findIn ng ks rest
end

mutual
/-- `freeze`: number the leaves and accumulate the posting-index offsets, in visiting order -/
def BT.freeze : BT → Nat → Nat → BT × Nat × Nat
  | .leaf _ _ size sk, bi, off => (.leaf bi off size sk, bi + 1, off + size)
  | .inner keys ch, bi, off => let r := BTs.freeze ch bi off; (.inner keys r.1, r.2.1, r.2.2)
def BTs.freeze : BTs → Nat → Nat → BTs × Nat × Nat
  | .nil, bi, off => (.nil, bi, off)
  | .cons h t, bi, off =>
    let r1 := h.freeze bi off
    let r2 := BTs.freeze t r1.2.1 r1.2.2
    (.cons r1.1 r2.1, r2.2.1, r2.2.2)
end

/-- `newBtreeIndex`: insert every ngram of the (sorted) section in order, then freeze; returns the tree and
    `lastBucketIndex` -/
def btBuild (B v : Nat) (ngs : List Nat) : BT × Nat :=
  let t := ngs.foldl (btInsert B v) (.leaf 0 0 0 0)
  let r := t.freeze 0 0
  (r.1, r.2.1 - 1)

/-- `btreeIndex.Get(ng)`: the index of the ngram's posting list (`none` = the empty section). `sort.Search` over the
    sorted bucket = the first position whose ngram is `≥ ng`. -/
def btGet (B : Nat) (ngs : List Nat) (t : BT) (last : Nat) (ng : Nat) : Option Nat :=
  let r := t.find ng
  let h := B / 2
  let bucket := if r.1 = last then ngs.drop (r.1 * h) else (ngs.drop (r.1 * h)).take h
  let x := bucket.findIdx (fun g => decide (ng ≤ g))
  if x ≥ bucket.length ∨ bucket.getD x 0 ≠ ng then none else some (r.2 + x)

mutual
/-- the inner keys in the order `btree.String()` prints them -/
def BT.innerKeys : BT → List (List Nat)
  | .leaf _ _ _ _ => []
  | .inner keys ch => keys :: BTs.innerKeys ch
def BTs.innerKeys : BTs → List (List Nat)
  | .nil => []
  | .cons h t => h.innerKeys ++ BTs.innerKeys t
end

mutual
/-- executable search-tree invariant of a frozen tree over the sorted ngram list `ngs` with half-bucket size `h`:
    the subtree's leaves are the buckets `lo, lo+1, …` in order (bucket `j` starts at ngram `j*h`), and the key that
    separates two children is the first ngram of the right child's first bucket. Returns the next bucket number. -/
def BT.covers (h : Nat) (ngs : List Nat) : BT → Nat → Option Nat
  | .leaf bi po _ _, lo => if bi = lo ∧ po = lo * h then some (lo + 1) else none
  | .inner keys ch, lo => BTs.covers h ngs keys ch lo
/-- children from bucket `lo` on; `keys` are the separators that follow each child but the last -/
def BTs.covers (h : Nat) (ngs : List Nat) : List Nat → BTs → Nat → Option Nat
  | _, .nil, _ => none
  | [], .cons c .nil, lo => c.covers h ngs lo
  | [], .cons _ (.cons _ _), _ => none
  | k :: ks, .cons c rest, lo =>
    match c.covers h ngs lo with
    | none => none
    | some mid =>
      if k = ngs.getD (mid * h) 0 ∧ mid * h < ngs.length then BTs.covers h ngs ks rest mid else none
end

/-- the whole frozen tree is a search tree over `ngs` -/
def btOK (B : Nat) (ngs : List Nat) (t : BT) (last : Nat) : Bool :=
  decide (0 < B / 2) && (t.covers (B / 2) ngs 0 == some (last + 1)) && decide (last * (B / 2) ≤ ngs.length)

end ZoektModel.C01
