/-
C01 — the property as an executable predicate, written from the statement: a search returns exactly the live documents
on which the query is true when each atom is decided by scanning the whole content / file name.

At the level the model driver sees a search (a constructed match tree), the scan meaning of the tree is `MT.ref`:
substring atoms by scanning every offset of the text, tabulated atoms (document predicates; regexp engine verdicts) by
their table, connectives pointwise.  A `noVisit` subtree is only ever the trigram pre-filter that `newMatchTree` puts
next to a regexp atom; it is not part of the query's meaning, so `ref` ignores it (`true`): evaluated on the
implementation's output this checks, case by case, that the pre-filter never removes a document the atom matches.
-/
import ZoektModel.C01.Model
namespace ZoektModel.C01

/-- the pattern occurs somewhere in the text (scan of every offset) -/
def occurs (caseSens : Bool) (pat text : List Nat) : Bool :=
  (List.range (text.length + 1)).any (fun off => matchAt caseSens pat text off)

mutual
/-- scan meaning of a match tree on document `d` -/
def MT.ref (ctx : Ctx) (d : Nat) : MT → Bool
  | .doc _ bits _ _ => bits.getD d false
  | .brute _ _ => true
  | .none => false
  | .re _ _ bits _ _ _ _ => bits.getD d false
  | .sub s => occurs s.caseSens s.pat (ctx.text s.fileName d)
  | .and _ ch => MTs.refAll ctx d ch
  | .andLine _ _ ch => MTs.refAll ctx d ch
  | .or _ ch => MTs.refAny ctx d ch
  | .not _ c => !(c.ref ctx d)
  | .fileName _ c => c.ref ctx d
  | .boost _ c => c.ref ctx d
  | .noVisit _ => true
def MTs.refAll (ctx : Ctx) (d : Nat) : MTs → Bool
  | .nil => true
  | .cons h t => h.ref ctx d && MTs.refAll ctx d t
def MTs.refAny (ctx : Ctx) (d : Nat) : MTs → Bool
  | .nil => false
  | .cons h t => h.ref ctx d || MTs.refAny ctx d t
end

/-- the documents a search must return -/
def expected (ctx : Ctx) (mt : MT) : List Nat :=
  (List.range ctx.live.length).filter (fun d => ctx.live.getD d false && mt.ref ctx d)

/-- C01 on a reported result list -/
def checkP (ctx : Ctx) (mt : MT) (res : List Nat) : Bool := res == expected ctx mt

end ZoektModel.C01
