/-
C01 — lemmas about the hit iterators: the distance iterator never loses an aligned pair of postings.
-/
import ZoektModel.C01.Model
namespace ZoektModel.C01

/-- `p` is among the postings the (merged) iterator still holds -/
def Basic.mem (b : Basic) (p : Nat) : Prop := ∃ l, l ∈ b ∧ p ∈ l

/-- every posting is a real offset, below the sentinel -/
def Basic.Bounded (b : Basic) : Prop := ∀ p, b.mem p → p < maxU32

theorem foldl_min_le (b : Basic) : ∀ (r : Nat), b.foldl (fun r l => min r (headOr l)) r ≤ r := by
  induction b with
  | nil => intro r; exact Nat.le_refl _
  | cons l t ih => intro r; simp only [List.foldl_cons]; exact Nat.le_trans (ih _) (Nat.min_le_left _ _)

theorem foldl_min_le_mem (b : Basic) : ∀ (r : Nat) (l : Postings), l ∈ b →
    b.foldl (fun r l => min r (headOr l)) r ≤ headOr l := by
  induction b with
  | nil => intro r l h; simp at h
  | cons l0 t ih =>
    intro r l h
    simp only [List.foldl_cons]
    rcases List.mem_cons.mp h with h | h
    · subst h; exact Nat.le_trans (foldl_min_le t _) (Nat.min_le_right _ _)
    · exact ih _ l h

/-- in a strictly increasing list the head is the least element; for `first ≤ p` we only need `head ≤ p`, which
    holds for sorted posting lists -/
def SortedL (l : Postings) : Prop := l.Pairwise (· < ·)

def Basic.Sorted (b : Basic) : Prop := ∀ l, l ∈ b → SortedL l

theorem headOr_le_of_mem (l : Postings) (hs : SortedL l) (p : Nat) (hp : p ∈ l) : headOr l ≤ p := by
  cases l with
  | nil => simp at hp
  | cons a t =>
    simp only [headOr]
    rcases List.mem_cons.mp hp with h | h
    · omega
    · have := (List.pairwise_cons.mp hs).1 p h; omega

theorem Basic.first_le (b : Basic) (hs : b.Sorted) (p : Nat) (hp : b.mem p) : b.first ≤ p := by
  obtain ⟨l, hl, hpl⟩ := hp
  exact Nat.le_trans (foldl_min_le_mem b maxU32 l hl) (headOr_le_of_mem l (hs l hl) p hpl)

theorem mem_dropLE (limit : Nat) (l : Postings) (p : Nat) (hp : p ∈ l) (hgt : limit < p) : p ∈ dropLE limit l := by
  induction l with
  | nil => simp at hp
  | cons a t ih =>
    simp only [dropLE]
    by_cases ha : a ≤ limit
    · simp only [ha, if_true]
      rcases List.mem_cons.mp hp with h | h
      · omega
      · exact ih h
    · simp only [ha, if_false]; exact hp

theorem dropLE_subset (limit : Nat) (l : Postings) (p : Nat) (hp : p ∈ dropLE limit l) : p ∈ l := by
  induction l with
  | nil => simp [dropLE] at hp
  | cons a t ih =>
    simp only [dropLE] at hp
    by_cases ha : a ≤ limit
    · simp only [ha, if_true] at hp; exact List.mem_cons_of_mem _ (ih hp)
    · simp only [ha, if_false] at hp; exact hp

theorem dropLE_sorted (limit : Nat) (l : Postings) (hs : SortedL l) : SortedL (dropLE limit l) := by
  induction l with
  | nil => simp [dropLE, SortedL]
  | cons a t ih =>
    simp only [dropLE]
    by_cases ha : a ≤ limit
    · simp only [ha, if_true]; exact ih (List.pairwise_cons.mp hs).2
    · simp only [ha, if_false]; exact hs

theorem Basic.mem_next (b : Basic) (limit p : Nat) (hp : b.mem p) (hgt : limit < p) (hl : limit ≠ maxU32) :
    (b.next limit).mem p := by
  obtain ⟨l, hl1, hl2⟩ := hp
  simp only [Basic.next, hl, if_false]
  exact ⟨dropLE limit l, List.mem_map.mpr ⟨l, hl1, rfl⟩, mem_dropLE limit l p hl2 hgt⟩

theorem Basic.next_subset (b : Basic) (limit p : Nat) (hp : (b.next limit).mem p) : b.mem p := by
  obtain ⟨l, hl1, hl2⟩ := hp
  simp only [Basic.next] at hl1
  by_cases hl : limit = maxU32
  · simp only [hl, if_true, List.mem_map] at hl1
    obtain ⟨_, _, e⟩ := hl1; subst e; simp at hl2
  · simp only [hl, if_false, List.mem_map] at hl1
    obtain ⟨l0, h0, e⟩ := hl1; subst e
    exact ⟨l0, h0, dropLE_subset limit l0 p hl2⟩

theorem Basic.next_sorted (b : Basic) (limit : Nat) (hs : b.Sorted) : (b.next limit).Sorted := by
  intro l hl
  simp only [Basic.next] at hl
  by_cases h : limit = maxU32
  · simp only [h, if_true, List.mem_map] at hl
    obtain ⟨_, _, e⟩ := hl; subst e; simp [SortedL]
  · simp only [h, if_false, List.mem_map] at hl
    obtain ⟨l0, h0, e⟩ := hl; subst e
    exact dropLE_sorted limit l0 (hs l0 h0)

theorem Basic.next_bounded (b : Basic) (limit : Nat) (hb : b.Bounded) : (b.next limit).Bounded :=
  fun p hp => hb p (b.next_subset limit p hp)

/-- `q` in the first list and `q + d` in the second: an occurrence of both trigrams at the right distance -/
def Dist.Aligned (it : Dist) (q : Nat) : Prop := it.i1.mem q ∧ it.i2.mem (q + it.d)

structure Dist.WF (it : Dist) : Prop where
  s1 : it.i1.Sorted
  s2 : it.i2.Sorted
  b1 : it.i1.Bounded
  b2 : it.i2.Bounded

/-- **`findNext` never drops an aligned pair**, whatever the fuel -/
theorem Dist.findNext_complete : ∀ (fuel : Nat) (it : Dist), it.WF → ∀ q, it.Aligned q →
    (Dist.findNext fuel it).WF ∧ (Dist.findNext fuel it).Aligned q ∧ (Dist.findNext fuel it).d = it.d := by
  intro fuel
  induction fuel with
  | zero => intro it hw q hq; exact ⟨hw, hq, rfl⟩
  | succ fuel ih =>
    intro it hw q hq
    have hq1 : it.i1.first ≤ q := it.i1.first_le hw.s1 q hq.1
    have hq2 : it.i2.first ≤ q + it.d := it.i2.first_le hw.s2 _ hq.2
    have hb1 : q < maxU32 := hw.b1 q hq.1
    have hb2 : q + it.d < maxU32 := hw.b2 _ hq.2
    simp only [Dist.findNext]
    by_cases hs : it.i1.first = maxU32 ∨ it.i2.first = maxU32
    · exfalso; rcases hs with h | h <;> omega
    · simp only [hs, if_false]
      by_cases h1 : it.i1.first + it.d < it.i2.first
      · simp only [h1, if_true]
        have hne : it.i2.first - it.d - 1 ≠ maxU32 := by omega
        have r := ih { it with i1 := it.i1.next (it.i2.first - it.d - 1) }
          ⟨it.i1.next_sorted _ hw.s1, hw.s2, it.i1.next_bounded _ hw.b1, hw.b2⟩ q
          ⟨it.i1.mem_next _ q hq.1 (by omega) hne, hq.2⟩
        exact ⟨r.1, r.2.1, r.2.2⟩
      · simp only [h1, if_false]
        by_cases h2 : it.i1.first + it.d > it.i2.first
        · simp only [h2, if_true]
          have hne : it.i1.first + it.d - 1 ≠ maxU32 := by omega
          have r := ih { it with i2 := it.i2.next (it.i1.first + it.d - 1) }
            ⟨hw.s1, it.i2.next_sorted _ hw.s2, hw.b1, it.i2.next_bounded _ hw.b2⟩ q
            ⟨hq.1, it.i2.mem_next _ (q + it.d) hq.2 (by omega) hne⟩
          exact ⟨r.1, r.2.1, r.2.2⟩
        · simp only [h2, if_false]; exact ⟨hw, hq, trivial⟩

/-- **`next(limit)` of the distance iterator keeps every aligned pair beyond the limit** -/
theorem Dist.next_complete (x : Dist) (hw : x.WF) (limit : Nat) (hl : limit ≠ maxU32) (q : Nat)
    (hq : x.Aligned q) (hgt : limit < q) :
    match Hit.next (.dist x) limit with
    | .dist y => y.WF ∧ y.Aligned q
    | .basic _ => False := by
  have hb2 : q + x.d < maxU32 := hw.b2 _ hq.2
  simp only [Hit.next]
  have hov : ¬ (limit + x.d > maxU32) := by omega
  simp only [hov, if_false]
  have hne : limit + x.d ≠ maxU32 := by omega
  have r := Dist.findNext_complete
    (Dist.fuel { x with i1 := x.i1.next limit, i2 := x.i2.next (limit + x.d) })
    { x with i1 := x.i1.next limit, i2 := x.i2.next (limit + x.d) }
    ⟨x.i1.next_sorted _ hw.s1, x.i2.next_sorted _ hw.s2, x.i1.next_bounded _ hw.b1, x.i2.next_bounded _ hw.b2⟩ q
    ⟨x.i1.mem_next _ q hq.1 hgt hl, x.i2.mem_next _ (q + x.d) hq.2 (by omega) hne⟩
  exact ⟨r.1, r.2.1⟩

end ZoektModel.C01
