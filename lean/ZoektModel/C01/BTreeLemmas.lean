/-
C01 — L12: from the search-tree invariant (`btOK`, checked on every correspondence case) to the lookup specification:
`btreeIndex.Get` returns the index of the ngram in the sorted section, or nothing.
-/
import ZoektModel.C01.BTree
import ZoektModel.C01.LineLemmas
namespace ZoektModel.C01

/-- what `find` guarantees inside a subtree covering buckets `[lo, hi)` -/
def FindOK (h : Nat) (ngs : List Nat) (lo hi ng : Nat) (r : Nat × Nat) : Prop :=
  lo ≤ r.1 ∧ r.1 < hi ∧ r.2 = r.1 * h ∧
  (r.1 = lo ∨ (r.1 * h < ngs.length ∧ ngs.getD (r.1 * h) 0 ≤ ng)) ∧
  (r.1 + 1 = hi ∨ ((r.1 + 1) * h < ngs.length ∧ ng < ngs.getD ((r.1 + 1) * h) 0))

mutual
theorem BT.find_ok (h : Nat) (ngs : List Nat) (ng : Nat) : (t : BT) → (lo hi : Nat) →
    t.covers h ngs lo = some hi → FindOK h ngs lo hi ng (t.find ng)
  | .leaf bi po _ _, lo, hi, hc => by
    simp only [BT.covers] at hc
    split at hc
    · rename_i hb
      simp only [Option.some.injEq] at hc
      subst hc
      simp only [BT.find, FindOK]
      exact ⟨by omega, by omega, by rw [hb.2, hb.1], Or.inl hb.1, Or.inl (by omega)⟩
    · simp at hc
  | .inner keys ch, lo, hi, hc => by
    simp only [BT.covers] at hc
    simp only [BT.find]
    exact BTs.findIn_ok h ngs ng keys ch lo hi hc
theorem BTs.findIn_ok (h : Nat) (ngs : List Nat) (ng : Nat) : (keys : List Nat) → (ch : BTs) → (lo hi : Nat) →
    BTs.covers h ngs keys ch lo = some hi → FindOK h ngs lo hi ng (BTs.findIn ng keys ch)
  | _, .nil, _, _, hc => by simp [BTs.covers] at hc
  | [], .cons c .nil, lo, hi, hc => by
    simp only [BTs.covers] at hc
    simp only [BTs.findIn]
    exact BT.find_ok h ngs ng c lo hi hc
  | [], .cons _ (.cons _ _), _, _, hc => by simp [BTs.covers] at hc
  | k :: ks, .cons c rest, lo, hi, hc => by
    simp only [BTs.covers] at hc
    cases hcc : c.covers h ngs lo with
    | none => simp [hcc] at hc
    | some mid =>
      simp only [hcc] at hc
      have rc := BT.find_ok h ngs ng c lo mid hcc
      split at hc
      · rename_i hk
        have rr := BTs.findIn_ok h ngs ng ks rest mid hi hc
        simp only [BTs.findIn]
        obtain ⟨a1, a2, a3, a4, a5⟩ := rc
        obtain ⟨b1, b2, b3, b4, b5⟩ := rr
        by_cases hlt : ng < k
        · simp only [hlt, if_true]
          refine ⟨a1, by omega, a3, a4, ?_⟩
          rcases a5 with e | e
          · right; rw [e, ← hk.1]; exact ⟨hk.2, hlt⟩
          · exact Or.inr e
        · simp only [hlt, if_false]
          refine ⟨by omega, b2, b3, ?_, b5⟩
          rcases b4 with e | e
          · right; rw [e, ← hk.1]; exact ⟨hk.2, by omega⟩
          · exact Or.inr e
      · simp at hc
end


/-! ### the bucket search -/

theorem sorted_getD_le_iff (l : List Nat) (hs : SortedC l) (i j : Nat) (hi : i < l.length) (hj : j < l.length) :
    l.getD i 0 ≤ l.getD j 0 ↔ i ≤ j := by
  constructor
  · intro h
    apply Classical.byContradiction
    intro hn
    have := sorted_getD_lt l hs j i (by omega) hi
    omega
  · intro h
    by_cases e : i = j
    · subst e; exact Nat.le_refl _
    · have := sorted_getD_lt l hs i j (by omega) hj; omega

/-- `sort.Search` for a present key in a strictly sorted bucket lands on it -/
theorem findIdx_sorted : ∀ (l : List Nat), SortedC l → ∀ k, k < l.length →
    l.findIdx (fun g => decide (l.getD k 0 ≤ g)) = k := by
  intro l
  induction l with
  | nil => intro _ k h; simp at h
  | cons a t ih =>
    intro hs k hk
    cases k with
    | zero => simp [List.findIdx_cons]
    | succ k =>
      simp only [List.length_cons] at hk
      simp only [List.getD_cons_succ, List.findIdx_cons]
      have hlt : a < t.getD k 0 := (List.pairwise_cons.mp hs).1 _ (getD_mem t k (by omega))
      have : decide (t.getD k 0 ≤ a) = false := decide_eq_false (by omega)
      simp only [this, cond_false]
      rw [ih (List.pairwise_cons.mp hs).2 k (by omega)]

theorem getD_drop (l : List Nat) (off x : Nat) : (l.drop off).getD x 0 = l.getD (off + x) 0 := by
  simp [List.getD_eq_getElem?_getD, List.getElem?_drop]

theorem getD_take (l : List Nat) (h x : Nat) (hx : x < h) : (l.take h).getD x 0 = l.getD x 0 := by
  simp [List.getD_eq_getElem?_getD, List.getElem?_take, hx]

/-- a bucket: `ngs[off : off+h]`, or `ngs[off:]` for the last one -/
def bucketOf (ngs : List Nat) (off h : Nat) (isLast : Bool) : List Nat :=
  if isLast then ngs.drop off else (ngs.drop off).take h

theorem bucketOf_sublist (ngs : List Nat) (off h : Nat) (isLast : Bool) : (bucketOf ngs off h isLast).Sublist ngs := by
  unfold bucketOf
  split
  · exact List.drop_sublist _ _
  · exact (List.take_sublist _ _).trans (List.drop_sublist _ _)

theorem bucketOf_getD (ngs : List Nat) (off h : Nat) (isLast : Bool) (x : Nat)
    (hx : x < (bucketOf ngs off h isLast).length) : (bucketOf ngs off h isLast).getD x 0 = ngs.getD (off + x) 0 := by
  unfold bucketOf at *
  cases isLast with
  | true => simp only [if_true] at *; exact getD_drop ngs off x
  | false =>
    simp only [Bool.false_eq_true, if_false] at *
    rw [List.length_take] at hx
    rw [getD_take _ _ _ (by omega), getD_drop]

/-- **`btGet_spec`**: on a frozen tree that satisfies the search-tree invariant over a strictly increasing ngram section,
    `btreeIndex.Get` returns the index of a present ngram and nothing for an absent one -/
theorem btGet_spec (B : Nat) (ngs : List Nat) (t : BT) (last : Nat) (hs : SortedC ngs) (hok : btOK B ngs t last = true) :
    (∀ idx, idx < ngs.length → btGet B ngs t last (ngs.getD idx 0) = some idx) ∧
    (∀ ng, ng ∉ ngs → btGet B ngs t last ng = Option.none) := by
  simp only [btOK, Bool.and_eq_true, decide_eq_true_eq, beq_iff_eq] at hok
  obtain ⟨⟨hh, hcov⟩, hlast⟩ := hok
  have hfind := fun ng => BT.find_ok (B / 2) ngs ng t 0 (last + 1) hcov
  have hbt : ∀ ng, btGet B ngs t last ng =
      (let bucket := bucketOf ngs ((t.find ng).1 * (B / 2)) (B / 2) (decide ((t.find ng).1 = last))
       let x := bucket.findIdx (fun g => decide (ng ≤ g))
       if x ≥ bucket.length ∨ bucket.getD x 0 ≠ ng then Option.none else some ((t.find ng).2 + x)) := by
    intro ng
    simp only [btGet, bucketOf]
    by_cases e : (t.find ng).1 = last <;> simp [e]
  constructor
  · intro idx hidx
    rw [hbt]
    obtain ⟨_, f2, f3, f4, f5⟩ := hfind (ngs.getD idx 0)
    generalize t.find (ngs.getD idx 0) = r at f2 f3 f4 f5
    obtain ⟨j, po⟩ := r
    simp only at f2 f3 f4 f5
    -- the ngram's index lies in bucket j
    have hlo : j * (B / 2) ≤ idx := by
      rcases f4 with e | ⟨e1, e2⟩
      · subst e; omega
      · exact (sorted_getD_le_iff ngs hs _ _ e1 hidx).mp e2
    have hhi : j = last ∨ idx < (j + 1) * (B / 2) := by
      rcases f5 with e | ⟨e1, e2⟩
      · left; omega
      · right
        apply Classical.byContradiction
        intro hn
        have := (sorted_getD_le_iff ngs hs _ _ e1 hidx).mpr (by omega)
        omega
    have hblen : idx - j * (B / 2) < (bucketOf ngs (j * (B / 2)) (B / 2) (decide (j = last))).length := by
      unfold bucketOf
      by_cases e : j = last
      · subst e; simp only [decide_true, if_true, List.length_drop]; omega
      · simp only [e, decide_false, Bool.false_eq_true, if_false, List.length_take, List.length_drop]
        have : idx < (j + 1) * (B / 2) := by rcases hhi with h | h; exact absurd h e; exact h
        have : (j + 1) * (B / 2) = j * (B / 2) + B / 2 := by rw [Nat.add_mul]; omega
        omega
    have hbs : SortedC (bucketOf ngs (j * (B / 2)) (B / 2) (decide (j = last))) :=
      List.Pairwise.sublist (bucketOf_sublist _ _ _ _) hs
    have hval := bucketOf_getD ngs (j * (B / 2)) (B / 2) (decide (j = last)) _ hblen
    have hidx' : j * (B / 2) + (idx - j * (B / 2)) = idx := by omega
    rw [hidx'] at hval
    have hfi := findIdx_sorted _ hbs _ hblen
    rw [hval] at hfi
    simp only []
    rw [hfi, hval]
    have : ¬ (idx - j * (B / 2) ≥ (bucketOf ngs (j * (B / 2)) (B / 2) (decide (j = last))).length ∨
        ngs.getD idx 0 ≠ ngs.getD idx 0) := by
      intro h; rcases h with h | h
      · omega
      · exact h rfl
    simp only [this, if_false, f3, hidx']
  · intro ng hng
    rw [hbt]
    simp only []
    split
    · rfl
    · rename_i hc
      exfalso
      have hc' : ¬ ((bucketOf ngs ((t.find ng).1 * (B / 2)) (B / 2) (decide ((t.find ng).1 = last))).findIdx
            (fun g => decide (ng ≤ g)) ≥ (bucketOf ngs ((t.find ng).1 * (B / 2)) (B / 2) (decide ((t.find ng).1 = last))).length) ∧
          ¬ ((bucketOf ngs ((t.find ng).1 * (B / 2)) (B / 2) (decide ((t.find ng).1 = last))).getD
            ((bucketOf ngs ((t.find ng).1 * (B / 2)) (B / 2) (decide ((t.find ng).1 = last))).findIdx
              (fun g => decide (ng ≤ g))) 0 ≠ ng) := by
        constructor
        · intro h; exact hc (Or.inl h)
        · intro h; exact hc (Or.inr h)
      obtain ⟨c1, c2⟩ := hc'
      have heq : (bucketOf ngs ((t.find ng).1 * (B / 2)) (B / 2) (decide ((t.find ng).1 = last))).getD
            ((bucketOf ngs ((t.find ng).1 * (B / 2)) (B / 2) (decide ((t.find ng).1 = last))).findIdx
              (fun g => decide (ng ≤ g))) 0 = ng := by
        apply Classical.byContradiction; intro h; exact c2 h
      have hmem := getD_mem _ _ (by omega : (bucketOf ngs ((t.find ng).1 * (B / 2)) (B / 2) (decide ((t.find ng).1 = last))).findIdx
              (fun g => decide (ng ≤ g)) < (bucketOf ngs ((t.find ng).1 * (B / 2)) (B / 2) (decide ((t.find ng).1 = last))).length)
      rw [heq] at hmem
      exact hng ((bucketOf_sublist _ _ _ _).subset hmem)

end ZoektModel.C01
