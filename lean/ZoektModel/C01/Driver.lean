import ZoektModel.Basic.Proto
import ZoektModel.C01.Spec
import ZoektModel.C01.BTree
import ZoektModel.C01.Word
import ZoektModel.C01.Select
import ZoektModel.C01.CaseVariants
import ZoektModel.C01.Postings
import ZoektModel.C01.Regex
namespace ZoektModel.C01
open ZoektModel ZoektModel.Proto

/-! line protocol of the C01 model driver; see harness/cmd/c01/trace.go for the Go side -/

def bits? (s : String) : Option (List Bool) :=
  if s == "-" then some [] else
  s.toList.mapM fun c => if c == '1' then some true else if c == '0' then some false else Option.none

/-- documents separated by `|`, runes by `,`, `-` = empty document -/
def docs? (s : String) : Option (List (List Nat)) := (s.splitOn "|").mapM natList?

/-- posting lists of the case variants of one trigram: lists separated by `/` -/
def variants? (s : String) : Option Basic :=
  if s == "-" then some [] else (s.splitOn "/").mapM natList?

def ends (texts : List (List Nat)) : List Nat :=
  (texts.foldl (fun (acc : Nat × List Nat) t => (acc.1 + t.length, (acc.1 + t.length) :: acc.2)) (0, [])).2.reverse

/-- prefix-notation token stream -> tree -/
partial def parseTree (ctx : Ctx) : List String → Option (MT × List String)
  | [] => Option.none
  | tok :: rest =>
    let children (n : Nat) (rest : List String) : Option (MTs × List String) := do
      let mut acc : List MT := []
      let mut r := rest
      for _ in [0:n] do
        let (c, r') ← parseTree ctx r
        acc := c :: acc
        r := r'
      pure (MTs.ofList acc.reverse, r)
    match tok.splitOn ":" with
    | ["A", n] => do let (ch, r) ← children (← n.toNat?) rest; pure (.and Option.none ch, r)
    | ["L", n] => do let (ch, r) ← children (← n.toNat?) rest; pure (.andLine Option.none Option.none ch, r)
    | ["O", n] => do let (ch, r) ← children (← n.toNat?) rest; pure (.or Option.none ch, r)
    | ["N"] => do let (c, r) ← parseTree ctx rest; pure (.not Option.none c, r)
    | ["F"] => do let (c, r) ← parseTree ctx rest; pure (.fileName Option.none c, r)
    | ["B"] => do let (c, r) ← parseTree ctx rest; pure (.boost Option.none c, r)
    | ["V"] => do let (c, r) ← parseTree ctx rest; pure (.noVisit c, r)
    | ["T"] => some (.brute false 0, rest)
    | ["Z"] => some (.none, rest)
    | ["D", b] => do pure (.doc false (← bits? b) false 0, rest)
    | ["H", b] => do pure (.doc true (← bits? b) false 0, rest)
    | ["R", f, b] => do pure (.re false (← bool? f) (← bits? b) false 0 false false, rest)
    | ["W", f, b] => do pure (.re true (← bool? f) (← bits? b) false 0 false false, rest)
    | ["X", f, cs, pat] => do pure (.sub ⟨← bool? f, ← bool? cs, ← natList? pat, Option.none, [], false⟩, rest)
    | ["S", f, cs, lp, rp, dist, p1, p2, pat] => do
      let f ← bool? f
      let d ← dist.toNat?
      let v1 ← variants? p1
      let v2 ← variants? p2
      let it : Hit := if d = 0 then .basic v1 else .dist ⟨v1, v2, d, false⟩
      let e := ends (if f then ctx.names else ctx.contents)
      pure (.sub ⟨f, ← bool? cs, ← natList? pat, some ⟨← lp.toNat?, ← rp.toNat?, it, e, 0⟩, [], false⟩, rest)
    | _ => Option.none

mutual
partial def shape : MT → List String
  | .doc false _ _ _ => ["D"]
  | .doc true _ _ _ => ["H"]
  | .brute _ _ => ["T"]
  | .none => ["Z"]
  | .re false _ _ _ _ _ _ => ["R"]
  | .re true _ _ _ _ _ _ => ["W"]
  | .sub s => [if s.it.isNone then "X" else "S"]
  | .and _ ch => s!"A{ch.length}" :: shapes ch
  | .andLine _ _ ch => s!"L{ch.length}" :: shapes ch
  | .or _ ch => s!"O{ch.length}" :: shapes ch
  | .not _ c => "N" :: shape c
  | .fileName _ c => "F" :: shape c
  | .boost _ c => "B" :: shape c
  | .noVisit c => "V" :: shape c
partial def shapes : MTs → List String
  | .nil => []
  | .cons h t => shape h ++ shapes t
end

/-- the posting lists the real iterators yielded are the ones the theorems talk about: for a case-sensitive leaf exactly
    `post` of the selected trigram, for a case-insensitive leaf a cover of `post` of the lowered trigram in the
    lower-cased texts (the hypothesis of `substr_ci_leaf_ok`) -/
def subPostingsOK (ctx : Ctx) (s : Sub) : Bool :=
  match s.it with
  | Option.none => true
  | some it =>
    let texts := if s.fileName then ctx.names else ctx.contents
    let T := if s.caseSens then texts else texts.map (List.map toLowerRune)
    let ok (b : Basic) (k : Nat) : Bool :=
      let want := post (tri s.pat k) T
      if s.caseSens then b == [want] else want.all (fun q => b.any (·.contains q))
    match it.iter with
    | .basic b => ok b it.leftPad
    | .dist x => ok x.i1 it.leftPad && ok x.i2 (it.leftPad + x.d)

mutual
partial def postingsOK (ctx : Ctx) : MT → Bool
  | .sub s => subPostingsOK ctx s
  | .and _ ch => postingsOKs ctx ch
  | .andLine _ _ ch => postingsOKs ctx ch
  | .or _ ch => postingsOKs ctx ch
  | .not _ c => postingsOK ctx c
  | .fileName _ c => postingsOK ctx c
  | .boost _ c => postingsOK ctx c
  | .noVisit c => postingsOK ctx c
  | _ => true
partial def postingsOKs (ctx : Ctx) : MTs → Bool
  | .nil => true
  | .cons h t => postingsOK ctx h && postingsOKs ctx t
end

/-- the structural hypotheses of `C01_search_exact_all` (`MT.OkF` at state 0, as far as they are decidable from the
    dumped tree): substring leaves with selected trigram positions `i ≤ j`, `j + 3 ≤ |pattern|` and the pads
    `iterateNgrams` computes from them; `andLine` nodes over substring leaves only -/
def subShapeOK (s : Sub) : Bool :=
  match s.it with
  | Option.none => decide (0 < s.pat.length)
  | some it =>
    let d := match it.iter with | .basic _ => 0 | .dist x => x.d
    decide (it.leftPad + d + 3 ≤ s.pat.length) && decide (it.rightPad = s.pat.length - it.leftPad) &&
    decide (it.fileIdx = 0) && (match it.iter with | .basic _ => true | .dist x => !x.started && decide (0 < x.d))

mutual
partial def fragmentOK : MT → Bool
  | .sub s => subShapeOK s
  | .and _ ch => fragmentOKs ch
  | .andLine _ _ ch => fragmentOKs ch && allSubs ch
  | .or _ ch => fragmentOKs ch
  | .not _ c => fragmentOK c
  | .fileName _ c => fragmentOK c
  | .boost _ c => fragmentOK c
  | .noVisit c => fragmentOK c
  | _ => true
partial def fragmentOKs : MTs → Bool
  | .nil => true
  | .cons h t => fragmentOK h && fragmentOKs t
partial def allSubs : MTs → Bool
  | .nil => true
  | .cons (.sub _) t => allSubs t
  | .cons _ _ => false
end

def showRaw (n : Nat) : String := if n = maxU32 then "M" else toString n

def showSt : St → String
  | .higher => "H" | .found => "F" | .none => "N"

def showCands (cs : List (List Nat)) : String :=
  if cs.isEmpty then "_" else
  "+".intercalate (cs.map fun l => if l.isEmpty then "-" else ".".intercalate (l.map toString))

def render (o : SearchOut) (shapeStr : String) : String :=
  let vs := o.visits.map fun (v, cs) =>
    s!"{v.doc}:{showRaw v.raw}:{String.join (v.states.map showSt)}:{showCands cs}"
  let vstr := if vs.isEmpty then "-" else ",".intercalate vs
  s!"tree={shapeStr} v={vstr} last={showRaw o.lastRaw} res={showNatList o.res}{if o.panicked then " PANIC" else ""}"

/-- the `res=` field of an implementation output line -/
def implRes? (impl : String) : Option (List Nat) :=
  match (fields impl).filter (·.startsWith "res=") with
  | [r] => natList? (r.drop 4).toString
  | _ => Option.none

def handleSearch (live names contents tree impl : String) : String :=
  match bits? live, docs? names, docs? contents with
  | some live, some names, some contents =>
    if names.length ≠ live.length ∨ contents.length ≠ live.length then badCase "doc counts" else
    let ctx : Ctx := ⟨names, contents, live⟩
    match parseTree ctx (tree.splitOn ";") with
    | some (mt, []) =>
      let model :=
        match search ctx mt with
        | Option.none => "tree=nil"
        | some o => render o (".".intercalate (shape ((mt.prune).getD .none)))
      let res := if impl == "tree=nil" then some [] else implRes? impl
      match res with
      | Option.none => badCase "impl output"
      | some r =>
        if !(checkP ctx mt r) then specFail model "search-result-differs-from-scan"
        else if !(postingsOK ctx mt) then specFail model "posting-lists-differ-from-the-occurrences-of-the-trigram"
        else if !(fragmentOK mt) then specFail model "tree-outside-the-proved-fragment"
        else answer model
    | _ => badCase "tree"
  | _, _, _ => badCase "fields"

/-- `btree <B> <v> <sorted ngrams> <queries>`: build + freeze, `find` and `Get` for every query -/
def handleBtree (b v ngs qs impl : String) : String :=
  match b.toNat?, v.toNat?, natList? ngs, natList? qs with
  | some B, some V, some ngs, some qs =>
    let (t, last) := btBuild B V ngs
    let shape := "{bucketSize:" ++ toString B ++ "_v:" ++ toString V ++ "}" ++
      String.join (t.innerKeys.map fun ks => "[" ++ ",".intercalate (ks.map toString) ++ "]")
    let finds := qs.map fun q => let r := t.find q; s!"{r.1}:{r.2}"
    let gets := qs.map fun q => match btGet B ngs t last q with | some i => toString i | Option.none => "-1"
    let model := s!"shape={shape} find={showList id finds} get={showList id gets}"
    -- the property on the implementation's answers: the index of the ngram in the sorted section, or none
    let want := qs.map fun q => match ngs.findIdx? (· == q) with | some i => toString i | Option.none => "-1"
    let implGet := match (fields impl).filter (·.startsWith "get=") with
      | [g] => some ((g.drop 4).toString)
      | _ => Option.none
    match implGet with
    | Option.none => badCase "impl output"
    | some g =>
      if g != showList id want then specFail model "btree-get-differs-from-index"
      else if !(btOK B ngs t last) then specFail model "btree-invariant"
      else answer model
  | _, _, _, _ => badCase "fields"

/-- `word <data hex> <word hex>`: offsets reported by the fast path; spec: something is reported iff the word occurs
    somewhere between non-word bytes -/
def handleWord (dataHex wordHex impl : String) : String :=
  match hexToBytes? dataHex, hexToBytes? wordHex with
  | some d, some w =>
    let data := d.map (·.toNat)
    let word := w.map (·.toNat)
    let model := "found=" ++ showNatList (wordMatches data word)
    let implFound := (impl.drop 6).toString != "-"
    if !impl.startsWith "found=" then badCase "impl output"
    else if implFound != wordSpec data word then specFail model "word-fastpath-differs-from-scan"
    else answer model
  | _, _ => badCase "fields"

/-- `select <pattern runes> <frequencies in sorted-trigram order>`: the positions of the two selected trigrams -/
def handleSelect (pat freqs impl : String) : String :=
  match natList? pat, natList? freqs with
  | some pat, some freqs =>
    let perm := sortedPositions pat
    let r := findSelective perm (mkIndexMap perm) freqs
    let model := s!"first={r.1} last={r.2} genuine=1"
    -- the property on the implementation's answer: two genuine trigram positions of the pattern, first ≤ last
    match (fields impl).map (fun f => (f.splitOn "=").getD 1 "") |>.mapM (·.toNat?) with
    | some [f, l, g] =>
      if f ≤ l ∧ l + 3 ≤ pat.length ∧ g = 1 then answer model else specFail model "selection-inconsistent"
    | _ => badCase "impl output"
  | _, _ => badCase "fields"

/-- `casengrams <r0,r1,r2> <fold table c:f,c:f,…>`: the variants `generateCaseNgrams` yields, in order; `fold` is
    `unicode.SimpleFold` on the runes of the table (identity elsewhere). Spec on the implementation's answer: every
    triple of the product of the three fold orbits is among the variants. -/
def handleCase (runes table impl : String) : String :=
  let pairs? : Option (List (Nat × Nat)) :=
    if table == "-" then some [] else (table.splitOn ",").mapM fun e =>
      match e.splitOn ":" with
      | [a, b] => do pure (← a.toNat?, ← b.toNat?)
      | _ => Option.none
  match natList? runes, pairs? with
  | some orig, some pairs =>
    let fold : Nat → Nat := fun c => match pairs.find? (·.1 == c) with | some p => p.2 | Option.none => c
    let vs := generateCase fold orig 300
    let showT (t : List Nat) : String := ".".intercalate (t.map toString)
    let model := "variants=" ++ "|".intercalate (vs.map showT)
    let orbit (c : Nat) : List Nat := (List.range 8).map (fun j => Nat.repeat fold j c)
    let product := (orig.map orbit).foldr (fun os acc => os.flatMap fun x => acc.map (x :: ·)) [[]]
    let implVs := ((impl.drop 9).toString.splitOn "|")
    if !impl.startsWith "variants=" then badCase "impl output"
    else if product.all (fun t => implVs.contains (showT t)) then answer model
    else specFail model "case-variants-miss-an-orbit-member"
  | _, _ => badCase "fields"

/-- prefix token stream -> regexp syntax tree -/
partial def parseRx : List String → Option (Rx × List String)
  | [] => Option.none
  | tok :: rest =>
    let subs (n : Nat) (rest : List String) : Option (Rxs × List String) := do
      let mut acc : List Rx := []
      let mut r := rest
      for _ in [0:n] do
        let (c, r') ← parseRx r
        acc := c :: acc
        r := r'
      pure (acc.foldl (fun t h => Rxs.cons h t) Rxs.nil, r)
    let pairs (l : List Nat) : List (Nat × Nat) :=
      (List.range (l.length / 2)).map fun i => (l.getD (2 * i) 0, l.getD (2 * i + 1) 0)
    match tok.splitOn ":" with
    | ["L", f, rs] => do pure (.lit (← natList? rs) (← bool? f), rest)
    | ["C", rs] => do pure (.cls (pairs (← natList? rs)), rest)
    | ["A"] => some (.anyNL, rest)
    | ["a"] => some (.anyNotNL, rest)
    | ["bl"] => some (.beginLine, rest)
    | ["el"] => some (.endLine, rest)
    | ["bt"] => some (.beginText, rest)
    | ["et"] => some (.endText, rest)
    | ["wb"] => some (.wordB, rest)
    | ["nwb"] => some (.noWordB, rest)
    | ["E"] => some (.empty, rest)
    | ["N"] => some (.noMatch, rest)
    | ["cap"] => do let (c, r) ← parseRx rest; pure (.cap c, r)
    | ["star"] => do let (c, r) ← parseRx rest; pure (.star c, r)
    | ["plus"] => do let (c, r) ← parseRx rest; pure (.plus c, r)
    | ["quest"] => do let (c, r) ← parseRx rest; pure (.quest c, r)
    | ["rep", mn, mx] => do
      let (c, r) ← parseRx rest
      let mx' : Option Nat := if mx == "-1" then Option.none else mx.toNat?
      pure (.rep c (← mn.toNat?) mx', r)
    | ["cat", n] => do let (cs, r) ← subs (← n.toNat?) rest; pure (.cat cs, r)
    | ["alt", n] => do let (cs, r) ← subs (← n.toNat?) rest; pure (.alt cs, r)
    | _ => Option.none

partial def litTokens : Lit → List String
  | .brute => ["T"]
  | .none => ["Z"]
  | .sub pat cs => ["S:" ++ showBool cs ++ ":" ++ showNatList pat]
  | .and ch => s!"A:{ch.length}" :: ch.flatMap litTokens
  | .andLine ch => s!"L:{ch.length}" :: ch.flatMap litTokens
  | .or ch => s!"O:{ch.length}" :: ch.flatMap litTokens

/-- `extract <caseSensitive> <syntax tree tokens>` -/
def handleExtract (cs toks : String) : String :=
  match bool? cs, parseRx (toks.splitOn ";") with
  | some cs, some (r, []) =>
    let e := r.extract cs
    answer s!"tree={";".intercalate (litTokens e.tree)} eq={showBool e.isEq} sl={showBool e.singleLine}"
  | _, _ => badCase "fields"

def handle (line : String) : String :=
  let (inp, impl) := splitCase line
  match fields inp with
  | ["search", live, names, contents, tree] => handleSearch live names contents tree impl
  | ["btree", b, v, ngs, qs] => handleBtree b v ngs qs impl
  | ["word", d, w] => handleWord d w impl
  | ["select", p, fr] => handleSelect p fr impl
  | ["casengrams", rs, tb] => handleCase rs tb impl
  | ["extract", cs, toks] => handleExtract cs toks
  | _ => badCase "op"

def main : IO Unit := runLines handle
end ZoektModel.C01
