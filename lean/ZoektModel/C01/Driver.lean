import ZoektModel.Basic.Proto
namespace ZoektModel.C01
/-- stub: no model driver for C01 yet -/
def main : IO Unit := ZoektModel.Proto.runLines (fun _ => ZoektModel.Proto.badCase "no model driver for C01")
end ZoektModel.C01
