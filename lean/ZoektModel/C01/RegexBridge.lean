/-
C01 — L9: from `extract_superset` to the engine: on every document the regexp matches, the pre-filter tree that
`regexpToMatchTreeRecursive` builds (substring leaves, and / same-line and / or) evaluates to true.
-/
import ZoektModel.C01.RegexLemmas
import ZoektModel.C01.FullLemmas
namespace ZoektModel.C01

/-- the pattern a substring leaf carries for a literal: as is, or lower-cased for a case-insensitive leaf -/
def leafPat (pat : List Nat) (cs : Bool) : List Nat := if cs then pat else pat.map toLowerRune

def Lit.lc (ctx : Ctx) (d : Nat) : Lit → Option (List Nat)
  | .sub pat cs => some (occList ctx cs (leafPat pat cs) d)
  | _ => Option.none

def Lit.lineCands (ctx : Ctx) (d : Nat) : List Lit → Option (List (List Nat))
  | [] => some []
  | c :: cs =>
    match c.lc ctx d with
    | Option.none => Option.none
    | some l => (Lit.lineCands ctx d cs).map (l :: ·)

mutual
/-- the literal tree on the content of document `d`, as the engine means it (mirror of `semF` on match trees) -/
def Lit.semB (ctx : Ctx) (d : Nat) : Lit → Bool
  | .brute => true
  | .none => false
  | .sub pat cs => occurs cs (leafPat pat cs) (ctx.text false d)
  | .and ch => Lit.semAllB ctx d ch
  | .andLine ch => Lit.semAllB ctx d ch && decide (sameLineOf ctx d (Lit.lineCands ctx d ch) = St.found)
  | .or ch => Lit.semAnyB ctx d ch
def Lit.semAllB (ctx : Ctx) (d : Nat) : List Lit → Bool
  | [] => true
  | c :: cs => c.semB ctx d && Lit.semAllB ctx d cs
def Lit.semAnyB (ctx : Ctx) (d : Nat) : List Lit → Bool
  | [] => false
  | c :: cs => c.semB ctx d || Lit.semAnyB ctx d cs
end

mutual
def Lit.WF : Lit → Prop
  | .sub pat _ => 0 < pat.length
  | .and ch => Lit.allWF ch
  | .andLine ch => ch ≠ [] ∧ Lit.allWF ch
  | .or ch => Lit.allWF ch
  | _ => True
def Lit.allWF : List Lit → Prop
  | [] => True
  | c :: cs => c.WF ∧ Lit.allWF cs
end

theorem allWF_filter (p : Lit → Bool) : ∀ (ch : List Lit), Lit.allWF ch → Lit.allWF (ch.filter p) := by
  intro ch
  induction ch with
  | nil => intro h; exact h
  | cons c cs ih =>
    intro h
    simp only [List.filter_cons]
    split
    · exact ⟨h.1, ih h.2⟩
    · exact ih h.2

mutual
theorem Rx.extract_wf (cs : Bool) : (r : Rx) → (r.extract cs).tree.WF
  | .lit rs fold => by
    simp only [Rx.extract]
    split
    · simp only [Lit.WF]; omega
    · trivial
  | .cap r => by simp only [Rx.extract]; exact Rx.extract_wf cs r
  | .plus r => by simp only [Rx.extract]; exact Rx.extract_wf cs r
  | .rep r mn mx => by
    simp only [Rx.extract]
    split
    · exact Rx.extract_wf cs r
    · split
      · exact Rx.extract_wf cs r
      · trivial
  | .cat rs => by
    have h := Rxs.extractAll_wf cs rs
    simp only [Rx.extract]
    generalize Rxs.extractAll cs rs = ea at h
    obtain ⟨qs, isEq, sl⟩ := ea
    simp only at h
    simp only []
    have hf := allWF_filter (fun q => !q.isBrute) qs h
    generalize qs.filter (fun q => !q.isBrute) = newQs at hf
    match newQs, hf with
    | [], _ => trivial
    | [q], hf => exact hf.1
    | q1 :: q2 :: rest, hf =>
      simp only []
      cases sl with
      | true => simp only [if_true]; exact ⟨by simp, hf⟩
      | false => simp only [Bool.false_eq_true, if_false]; exact hf
  | .alt rs => by
    have h := Rxs.extractAll_wf cs rs
    simp only [Rx.extract]
    generalize Rxs.extractAll cs rs = ea at h
    obtain ⟨qs, isEq, sl⟩ := ea
    simp only at h
    simp only []
    split
    · trivial
    · split
      · trivial
      · exact h
  | .star r => by
    cases r <;> simp only [Rx.extract] <;> trivial
  | .cls _ => by simp only [Rx.extract]; trivial
  | .anyNL => by simp only [Rx.extract]; trivial
  | .anyNotNL => by simp only [Rx.extract]; trivial
  | .beginLine => by simp only [Rx.extract]; trivial
  | .endLine => by simp only [Rx.extract]; trivial
  | .beginText => by simp only [Rx.extract]; trivial
  | .endText => by simp only [Rx.extract]; trivial
  | .wordB => by simp only [Rx.extract]; trivial
  | .noWordB => by simp only [Rx.extract]; trivial
  | .empty => by simp only [Rx.extract]; trivial
  | .noMatch => by simp only [Rx.extract]; trivial
  | .quest _ => by simp only [Rx.extract]; trivial
theorem Rxs.extractAll_wf (cs : Bool) : (rs : Rxs) → Lit.allWF (Rxs.extractAll cs rs).1
  | .nil => trivial
  | .cons r t => by
    simp only [Rxs.extractAll]
    exact ⟨Rx.extract_wf cs r, Rxs.extractAll_wf cs t⟩
end

/-- offsets separated by no newline are on the same line -/
theorem atOffset_eq_of_noNL (s : List Nat) (i o : Nat) (hio : i ≤ o) (h : NoNL s i o) :
    atOffset (newlineOffsets s) o = atOffset (newlineOffsets s) i := by
  unfold atOffset
  congr 1
  congr 1
  apply List.filter_congr
  intro x hx
  simp only [newlineOffsets, List.mem_filter, List.mem_range, beq_iff_eq] at hx
  by_cases hxi : x < i
  · simp [hxi]; omega
  · have : ¬ x < o := by
      intro hxo
      exact h x (by omega) hxo hx.2
    simp [hxi, this]

theorem subOcc_matchAt (cs : Bool) (pat s : List Nat) (o : Nat) (h : subOcc cs pat s o) :
    matchAt cs (leafPat pat cs) s o = true := by
  unfold subOcc at h
  unfold matchAt leafPat
  cases cs with
  | true => simpa using h
  | false => simpa using h

theorem matchAt_len (cs : Bool) (pat s : List Nat) (o : Nat) (hp : 0 < pat.length)
    (h : matchAt cs (leafPat pat cs) s o = true) : o + pat.length ≤ s.length := by
  unfold matchAt leafPat at h
  cases cs with
  | true =>
    simp only [if_true] at h
    have := (List.isPrefixOf_iff_prefix.mp h).length_le
    rw [List.length_drop] at this; omega
  | false =>
    simp only [Bool.false_eq_true, if_false] at h
    have := (List.isPrefixOf_iff_prefix.mp h).length_le
    rw [List.length_map, List.length_map, List.length_drop] at this; omega


def LineCandsOK (ctx : Ctx) (d : Nat) (n : Nat) (line : Nat) : Option (List (List Nat)) → Prop
  | Option.none => True
  | some L => L.length = n ∧ (∀ c, c ∈ L → SortedC c) ∧
      (∀ c, c ∈ L → ∀ x, x ∈ c → x < (ctx.text false d).length) ∧
      (∀ c, c ∈ L → ∃ x, x ∈ c ∧ atOffset (newlineOffsets (ctx.text false d)) x = line)

theorem lineCands_ok (ctx : Ctx) (d : Nat) (i' j' : Nat) (hj' : j' ≤ (ctx.text false d).length)
    (hn : NoNL (ctx.text false d) i' j') : ∀ (ch : List Lit), Lit.allWF ch →
    Lit.allInSpan (ctx.text false d) ch i' j' →
    LineCandsOK ctx d ch.length (atOffset (newlineOffsets (ctx.text false d)) i') (Lit.lineCands ctx d ch) := by
  intro ch
  induction ch with
  | nil => intro _ _; simp [Lit.lineCands, LineCandsOK]
  | cons c cs ih =>
    intro hwf hall
    have r := ih hwf.2 hall.2
    simp only [Lit.lineCands]
    cases c with
    | sub pat csens =>
      simp only [Lit.lc]
      cases hl : Lit.lineCands ctx d cs with
      | none => simp [LineCandsOK]
      | some L =>
        rw [hl] at r
        obtain ⟨r1, r2, r3, r4⟩ := r
        obtain ⟨o, ho1, ho2, hocc⟩ := hall.1
        have hp : 0 < pat.length := hwf.1
        have hm := subOcc_matchAt csens pat _ o hocc
        have hmem : o ∈ occList ctx csens (leafPat pat csens) d := by
          simp only [occList, List.mem_filter, List.mem_range]
          exact ⟨by omega, hm⟩
        have hline : atOffset (newlineOffsets (ctx.text false d)) o = atOffset (newlineOffsets (ctx.text false d)) i' :=
          atOffset_eq_of_noNL _ i' o ho1 (fun k a b => hn k a (by omega))
        simp only [Option.map, LineCandsOK, List.length_cons]
        refine ⟨by omega, fun x hx => ?_, fun x hx y hy => ?_, fun x hx => ?_⟩
        · rcases List.mem_cons.mp hx with e | e
          · subst e; exact List.Pairwise.filter _ List.pairwise_lt_range
          · exact r2 x e
        · rcases List.mem_cons.mp hx with e | e
          · subst e
            simp only [occList, List.mem_filter, List.mem_range] at hy
            have := matchAt_len csens pat _ y hp hy.2
            omega
          · exact r3 x e y hy
        · rcases List.mem_cons.mp hx with e | e
          · subst e; exact ⟨o, hmem, hline⟩
          · exact r4 x e
    | brute => simp [Lit.lc, LineCandsOK]
    | none => simp [Lit.lc, LineCandsOK]
    | and _ => simp [Lit.lc, LineCandsOK]
    | andLine _ => simp [Lit.lc, LineCandsOK]
    | or _ => simp [Lit.lc, LineCandsOK]

mutual
/-- a literal tree that is satisfied inside a span of the document's content evaluates to true on the document -/
theorem Lit.inSpan_semB (ctx : Ctx) (d : Nat) : (t : Lit) → t.WF → ∀ i j, j ≤ (ctx.text false d).length →
    t.inSpan (ctx.text false d) i j → t.semB ctx d = true
  | .brute, _, _, _, _, _ => rfl
  | .none, _, _, _, _, h => absurd h (by simp [Lit.inSpan])
  | .sub pat cs, hwf, i, j, hj, ⟨o, _, b, c⟩ => by
    simp only [Lit.semB, occurs, List.any_eq_true, List.mem_range]
    exact ⟨o, by omega, subOcc_matchAt cs pat _ o c⟩
  | .and ch, hwf, i, j, hj, h => by
    simp only [Lit.semB]; exact Lit.allInSpan_semB ctx d ch hwf i j hj h
  | .or ch, hwf, i, j, hj, h => by
    simp only [Lit.semB]; exact Lit.anyInSpan_semB ctx d ch hwf i j hj h
  | .andLine ch, hwf, i, j, hj, ⟨i', j', _, hj', hn, hall⟩ => by
    have h1 := Lit.allInSpan_semB ctx d ch hwf.2 i' j' (by omega) hall
    have h2 := lineCands_ok ctx d i' j' (by omega) hn ch hwf.2 hall
    simp only [Lit.semB, h1, Bool.true_and, decide_eq_true_eq]
    cases hl : Lit.lineCands ctx d ch with
    | none => simp [sameLineOf]
    | some L =>
      rw [hl] at h2
      obtain ⟨r1, r2, r3, r4⟩ := h2
      have hne : L ≠ [] := by
        intro e; subst e
        have : ch.length = 0 := by simpa using r1.symm
        exact hwf.1 (List.length_eq_zero_iff.mp this)
      exact (sameLineOf_spec ctx d L hne r2 r3).mpr ⟨_, r4⟩
theorem Lit.allInSpan_semB (ctx : Ctx) (d : Nat) : (ch : List Lit) → Lit.allWF ch → ∀ i j,
    j ≤ (ctx.text false d).length → Lit.allInSpan (ctx.text false d) ch i j → Lit.semAllB ctx d ch = true
  | [], _, _, _, _, _ => rfl
  | c :: cs, hwf, i, j, hj, h => by
    simp only [Lit.semAllB, Bool.and_eq_true]
    exact ⟨Lit.inSpan_semB ctx d c hwf.1 i j hj h.1, Lit.allInSpan_semB ctx d cs hwf.2 i j hj h.2⟩
theorem Lit.anyInSpan_semB (ctx : Ctx) (d : Nat) : (ch : List Lit) → Lit.allWF ch → ∀ i j,
    j ≤ (ctx.text false d).length → Lit.anyInSpan (ctx.text false d) ch i j → Lit.semAnyB ctx d ch = true
  | [], _, _, _, _, h => absurd h (by simp [Lit.anyInSpan])
  | c :: cs, hwf, i, j, hj, h => by
    simp only [Lit.semAnyB, Bool.or_eq_true]
    rcases h with h | h
    · exact Or.inl (Lit.inSpan_semB ctx d c hwf.1 i j hj h)
    · exact Or.inr (Lit.anyInSpan_semB ctx d cs hwf.2 i j hj h)
end

/-- **`extract_superset` on documents**: if the regexp matches somewhere in the content of document `d`, the literal
    tree extracted from it evaluates to true on `d` (incl. the same-line condition of its `andLine` nodes) -/
theorem extract_superset_doc (ctx : Ctx) (d : Nat) (ci : Bool) (r : Rx)
    (h : r.matchesText ci (ctx.text false d)) : (r.extract (!ci)).tree.semB ctx d = true := by
  obtain ⟨i, j, hm⟩ := h
  obtain ⟨⟨_, hj⟩, hin, _⟩ := Rx.ext_ok ci (ctx.text false d) r i j hm
  exact Lit.inSpan_semB ctx d _ (Rx.extract_wf (!ci) r) i j hj hin


/-! ### the extracted tree as a match tree -/

mutual
/-- the match tree `P` is the literal tree `lit` with iterators attached (content leaves) -/
def Corr : Lit → MT → Prop
  | .brute, .brute _ _ => True
  | .none, .none => True
  | .sub pat cs, .sub s => s.fileName = false ∧ s.caseSens = cs ∧ s.pat = leafPat pat cs
  | .and ch, .and _ mch => CorrAll ch mch
  | .andLine ch, .andLine _ _ mch => CorrAll ch mch
  | .or ch, .or _ mch => CorrAll ch mch
  | _, _ => False
def CorrAll : List Lit → MTs → Prop
  | [], .nil => True
  | c :: cs, .cons m ms => Corr c m ∧ CorrAll cs ms
  | _, _ => False
end

theorem corr_lc (ctx : Ctx) (d : Nat) (lit : Lit) (mt : MT) (h : Corr lit mt) :
    lcOfStat ctx d mt.stat = lit.lc ctx d := by
  cases lit <;> cases mt <;> simp only [Corr] at h <;> try (simp [MT.stat, lcOfStat, Lit.lc])
  rename_i pat cs s
  obtain ⟨h1, h2, h3⟩ := h
  simp [h1, h2, h3]

theorem corrAll_lineCands (ctx : Ctx) (d : Nat) : ∀ (ch : List Lit) (mch : MTs), CorrAll ch mch →
    lineCandsOfStats ctx d (MTs.stats mch) = Lit.lineCands ctx d ch
  | [], .nil, _ => rfl
  | [], .cons _ _, h => by simp [CorrAll] at h
  | _ :: _, .nil, h => by simp [CorrAll] at h
  | c :: cs, .cons m ms, h => by
    simp only [CorrAll] at h
    simp only [MTs.stats, lineCandsOfStats, Lit.lineCands, corr_lc ctx d c m h.1, corrAll_lineCands ctx d cs ms h.2]
    cases Lit.lc ctx d c <;> rfl

mutual
theorem corr_sem (ctx : Ctx) (L d : Nat) : (lit : Lit) → (mt : MT) → Corr lit mt → mt.OkF ctx L →
    semF ctx d mt = lit.semB ctx d
  | .brute, .brute _ _, _, _ => rfl
  | .none, .none, _, _ => rfl
  | .sub pat cs, .sub s, h, hok => by
    obtain ⟨h1, h2, h3⟩ := h
    simp only [semF, MT.sem, Lit.semB]
    rw [subSemX_eq_occurs ctx L s hok d, h1, h2, h3]
  | .and ch, .and _ mch, h, hok => by
    simp only [semF, MT.sem, Lit.semB]; exact corrAll_semAll ctx L d ch mch h hok
  | .or ch, .or _ mch, h, hok => by
    simp only [semF, MT.sem, Lit.semB]; exact corrAll_semAny ctx L d ch mch h hok
  | .andLine ch, .andLine _ _ mch, h, hok => by
    have a := corrAll_semAll ctx L d ch mch h hok.1
    simp only [semAllF] at a
    simp only [semF, MT.sem, Lit.semB, a, lineSemC, corrAll_lineCands ctx d ch mch h]
  | .brute, .doc _ _ _ _, h, _ => by simp [Corr] at h
  | .brute, .none, h, _ => by simp [Corr] at h
  | .brute, .re _ _ _ _ _ _ _, h, _ => by simp [Corr] at h
  | .brute, .sub _, h, _ => by simp [Corr] at h
  | .brute, .and _ _, h, _ => by simp [Corr] at h
  | .brute, .andLine _ _ _, h, _ => by simp [Corr] at h
  | .brute, .or _ _, h, _ => by simp [Corr] at h
  | .brute, .not _ _, h, _ => by simp [Corr] at h
  | .brute, .fileName _ _, h, _ => by simp [Corr] at h
  | .brute, .boost _ _, h, _ => by simp [Corr] at h
  | .brute, .noVisit _, h, _ => by simp [Corr] at h
  | .none, .doc _ _ _ _, h, _ => by simp [Corr] at h
  | .none, .brute _ _, h, _ => by simp [Corr] at h
  | .none, .re _ _ _ _ _ _ _, h, _ => by simp [Corr] at h
  | .none, .sub _, h, _ => by simp [Corr] at h
  | .none, .and _ _, h, _ => by simp [Corr] at h
  | .none, .andLine _ _ _, h, _ => by simp [Corr] at h
  | .none, .or _ _, h, _ => by simp [Corr] at h
  | .none, .not _ _, h, _ => by simp [Corr] at h
  | .none, .fileName _ _, h, _ => by simp [Corr] at h
  | .none, .boost _ _, h, _ => by simp [Corr] at h
  | .none, .noVisit _, h, _ => by simp [Corr] at h
  | .sub _ _, .doc _ _ _ _, h, _ => by simp [Corr] at h
  | .sub _ _, .brute _ _, h, _ => by simp [Corr] at h
  | .sub _ _, .none, h, _ => by simp [Corr] at h
  | .sub _ _, .re _ _ _ _ _ _ _, h, _ => by simp [Corr] at h
  | .sub _ _, .and _ _, h, _ => by simp [Corr] at h
  | .sub _ _, .andLine _ _ _, h, _ => by simp [Corr] at h
  | .sub _ _, .or _ _, h, _ => by simp [Corr] at h
  | .sub _ _, .not _ _, h, _ => by simp [Corr] at h
  | .sub _ _, .fileName _ _, h, _ => by simp [Corr] at h
  | .sub _ _, .boost _ _, h, _ => by simp [Corr] at h
  | .sub _ _, .noVisit _, h, _ => by simp [Corr] at h
  | .and _, .doc _ _ _ _, h, _ => by simp [Corr] at h
  | .and _, .brute _ _, h, _ => by simp [Corr] at h
  | .and _, .none, h, _ => by simp [Corr] at h
  | .and _, .re _ _ _ _ _ _ _, h, _ => by simp [Corr] at h
  | .and _, .sub _, h, _ => by simp [Corr] at h
  | .and _, .andLine _ _ _, h, _ => by simp [Corr] at h
  | .and _, .or _ _, h, _ => by simp [Corr] at h
  | .and _, .not _ _, h, _ => by simp [Corr] at h
  | .and _, .fileName _ _, h, _ => by simp [Corr] at h
  | .and _, .boost _ _, h, _ => by simp [Corr] at h
  | .and _, .noVisit _, h, _ => by simp [Corr] at h
  | .andLine _, .doc _ _ _ _, h, _ => by simp [Corr] at h
  | .andLine _, .brute _ _, h, _ => by simp [Corr] at h
  | .andLine _, .none, h, _ => by simp [Corr] at h
  | .andLine _, .re _ _ _ _ _ _ _, h, _ => by simp [Corr] at h
  | .andLine _, .sub _, h, _ => by simp [Corr] at h
  | .andLine _, .and _ _, h, _ => by simp [Corr] at h
  | .andLine _, .or _ _, h, _ => by simp [Corr] at h
  | .andLine _, .not _ _, h, _ => by simp [Corr] at h
  | .andLine _, .fileName _ _, h, _ => by simp [Corr] at h
  | .andLine _, .boost _ _, h, _ => by simp [Corr] at h
  | .andLine _, .noVisit _, h, _ => by simp [Corr] at h
  | .or _, .doc _ _ _ _, h, _ => by simp [Corr] at h
  | .or _, .brute _ _, h, _ => by simp [Corr] at h
  | .or _, .none, h, _ => by simp [Corr] at h
  | .or _, .re _ _ _ _ _ _ _, h, _ => by simp [Corr] at h
  | .or _, .sub _, h, _ => by simp [Corr] at h
  | .or _, .and _ _, h, _ => by simp [Corr] at h
  | .or _, .andLine _ _ _, h, _ => by simp [Corr] at h
  | .or _, .not _ _, h, _ => by simp [Corr] at h
  | .or _, .fileName _ _, h, _ => by simp [Corr] at h
  | .or _, .boost _ _, h, _ => by simp [Corr] at h
  | .or _, .noVisit _, h, _ => by simp [Corr] at h
theorem corrAll_semAll (ctx : Ctx) (L d : Nat) : (ch : List Lit) → (mch : MTs) → CorrAll ch mch →
    MTs.OkFAll ctx L mch → semAllF ctx d mch = Lit.semAllB ctx d ch
  | [], .nil, _, _ => rfl
  | [], .cons _ _, h, _ => by simp [CorrAll] at h
  | _ :: _, .nil, h, _ => by simp [CorrAll] at h
  | c :: cs, .cons m ms, h, hok => by
    simp only [CorrAll] at h
    have a := corr_sem ctx L d c m h.1 hok.1
    have b := corrAll_semAll ctx L d cs ms h.2 hok.2
    simp only [semF, semAllF] at a b
    simp only [semAllF, MTs.semAll, Lit.semAllB, a, b]
theorem corrAll_semAny (ctx : Ctx) (L d : Nat) : (ch : List Lit) → (mch : MTs) → CorrAll ch mch →
    MTs.OkFAll ctx L mch → semAnyF ctx d mch = Lit.semAnyB ctx d ch
  | [], .nil, _, _ => rfl
  | [], .cons _ _, h, _ => by simp [CorrAll] at h
  | _ :: _, .nil, h, _ => by simp [CorrAll] at h
  | c :: cs, .cons m ms, h, hok => by
    simp only [CorrAll] at h
    have a := corr_sem ctx L d c m h.1 hok.1
    have b := corrAll_semAny ctx L d cs ms h.2 hok.2
    simp only [semF, semAnyF] at a b
    simp only [semAnyF, MTs.semAny, Lit.semAnyB, a, b]
end

/-- **the pre-filter is sound**: on every document whose content the regexp matches, the match tree that carries the
    extracted literal tree evaluates to true -/
theorem prefilter_sound (ctx : Ctx) (L d : Nat) (ci : Bool) (r : Rx) (P : MT)
    (hc : Corr (r.extract (!ci)).tree P) (hok : P.OkF ctx L) (hm : r.matchesText ci (ctx.text false d)) :
    semF ctx d P = true := by
  rw [corr_sem ctx L d _ P hc hok]
  exact extract_superset_doc ctx d ci r hm

end ZoektModel.C01
