/-
C01 — executable model of zoekt's per-shard search engine (index/hititer.go, index/matchiter.go, index/matchtree.go,
index/eval.go `indexData.Search`, index/btree.go), transcribing the Go code as written.

Texts are lists of runes (`Nat` code points): the property quantifies over valid UTF-8, where byte equality of
strings and rune equality coincide; the rune↔byte offset map (`findOffset`) is order preserving and is validated end
to end, not modelled.  Offsets are `Nat`; Go uses `uint32` with the sentinel `math.MaxUint32` (`maxU32` here); the
shard format limits contents to < 4 GiB, so no other value reaches the sentinel (trusted-base item).
Core Lean only (linked into the driver).
-/
namespace ZoektModel.C01

def maxU32 : Nat := 4294967295

/-! ## L2  hit iterators (index/hititer.go) -/

/-- a posting list: strictly increasing global rune offsets; what is left of a `compressedPostingIterator` -/
abbrev Postings := List Nat

/-- `mergingIterator` over the case variants of one trigram (a single `compressedPostingIterator` is the one-list case) -/
abbrev Basic := List Postings

def headOr : Postings → Nat
  | [] => maxU32
  | p :: _ => p

/-- `mergingIterator.first` / `compressedPostingIterator.first` -/
def Basic.first (b : Basic) : Nat := b.foldl (fun r l => min r (headOr l)) maxU32

/-- `compressedPostingIterator.next(limit)` for `limit ≠ MaxUint32`: skip every posting `≤ limit` -/
def dropLE (limit : Nat) : Postings → Postings
  | [] => []
  | p :: t => if p ≤ limit then dropLE limit t else p :: t

/-- `next(limit)`; `MaxUint32` empties the iterator -/
def Basic.next (b : Basic) (limit : Nat) : Basic :=
  if limit = maxU32 then b.map (fun _ => []) else b.map (dropLE limit)

def Basic.size (b : Basic) : Nat := (b.map List.length).sum

/-- `distanceHitIterator` -/
structure Dist where
  i1 : Basic
  i2 : Basic
  d : Nat
  started : Bool
  deriving Repr

/-- `distanceHitIterator.findNext`; the Go `for {}` loop, with fuel (see `Dist.fuel`, `findNext_fuel_suffices`) -/
def Dist.findNext : Nat → Dist → Dist
  | 0, it => it
  | fuel + 1, it =>
    let p1 := it.i1.first
    let p2 := it.i2.first
    if p1 = maxU32 ∨ p2 = maxU32 then { it with i1 := it.i1.next maxU32 }
    else if p1 + it.d < p2 then Dist.findNext fuel { it with i1 := it.i1.next (p2 - it.d - 1) }
    else if p1 + it.d > p2 then Dist.findNext fuel { it with i2 := it.i2.next (p1 + it.d - 1) }
    else it

def Dist.fuel (it : Dist) : Nat := it.i1.size + it.i2.size + 1

/-- a `hitIterator` as `iterateNgrams` builds it: one (merged) trigram, or two at a distance -/
inductive Hit where
  | basic (b : Basic)
  | dist (x : Dist)
  deriving Repr

/-- `first()` (the distance iterator runs `findNext` lazily on the first call) -/
def Hit.first : Hit → Nat × Hit
  | .basic b => (b.first, .basic b)
  | .dist x =>
    let x' := if x.started then x else { Dist.findNext x.fuel x with started := true }
    (x'.i1.first, .dist x')

/-- `next(limit)` -/
def Hit.next (h : Hit) (limit : Nat) : Hit :=
  match h with
  | .basic b => .basic (b.next limit)
  | .dist x =>
    let i1 := x.i1.next limit
    let l2 := if limit + x.d > maxU32 then maxU32 else limit + x.d   -- uint32 overflow check of the Go code
    let i2 := x.i2.next l2
    let y : Dist := { x with i1 := i1, i2 := i2 }
    .dist (Dist.findNext y.fuel y)

/-! ## L4  ngramDocIterator (index/matchiter.go) -/

/-- `nextFileIndex(offset, f, ends)`: galloping search for the smallest `j ≥ f` with `ends[j] > offset` -/
def nextFileIndexAux (offset : Nat) (ends : List Nat) (f d : Nat) : Nat :=
  if h : f < ends.length ∧ ends.getD f 0 ≤ offset then
    if f + d < ends.length ∧ ends.getD (f + d) 0 ≤ offset then
      if d = 0 then f else nextFileIndexAux offset ends (f + d) (d * 2)
    else if d > 1 then nextFileIndexAux offset ends f (d / 4 + 1)
    else nextFileIndexAux offset ends (f + 1) d
  else f
termination_by 2 * (ends.length - f) + d
decreasing_by all_goals omega

def nextFileIndex (offset f : Nat) (ends : List Nat) : Nat := nextFileIndexAux offset ends f 1

structure DocIter where
  leftPad : Nat
  rightPad : Nat
  iter : Hit
  ends : List Nat
  fileIdx : Nat
  deriving Repr

/-- `ngramDocIterator.nextDoc` (it does advance `fileIdx`, and may run the distance iterator's first `findNext`) -/
def DocIter.nextDoc (i : DocIter) : Nat × DocIter :=
  let (p, it) := i.iter.first
  let fi := nextFileIndex p i.fileIdx i.ends
  let i' := { i with iter := it, fileIdx := fi }
  if fi ≥ i.ends.length then (maxU32, i') else (fi, i')

/-- `ngramDocIterator.prepare(nextDoc)` -/
def DocIter.prepare (i : DocIter) (nextDoc : Nat) : DocIter :=
  let start := if nextDoc > 0 then i.ends.getD (nextDoc - 1) 0 else 0
  let it := if start > 0 then i.iter.next (start + i.leftPad - 1) else i.iter
  { i with iter := it, fileIdx := nextDoc }

/-- the loop of `ngramDocIterator.candidates`; fuel = number of postings left (every round consumes one) -/
def candLoop (leftPad rightPad fileStart fileEnd : Nat) : Nat → Hit → List Nat → List Nat × Hit
  | 0, it, acc => (acc.reverse, it)
  | fuel + 1, it, acc =>
    let (p1, it1) := it.first
    if p1 = maxU32 ∨ p1 ≥ fileEnd then (acc.reverse, it1)
    else
      let it2 := it1.next p1
      if p1 < leftPad + fileStart ∨ p1 + rightPad > fileEnd then candLoop leftPad rightPad fileStart fileEnd fuel it2 acc
      else candLoop leftPad rightPad fileStart fileEnd fuel it2 ((p1 - fileStart - leftPad) :: acc)

def Hit.size : Hit → Nat
  | .basic b => b.size
  | .dist x => x.i1.size + x.i2.size

/-- `ngramDocIterator.candidates`: rune offsets (relative to the document) of the candidate matches -/
def DocIter.candidates (i : DocIter) : List Nat × DocIter :=
  if i.fileIdx ≥ i.ends.length then ([], i) else
  let fileStart := if i.fileIdx > 0 then i.ends.getD (i.fileIdx - 1) 0 else 0
  let fileEnd := i.ends.getD i.fileIdx 0
  let (cs, it) := candLoop i.leftPad i.rightPad fileStart fileEnd (i.iter.size + 1) i.iter []
  (cs, { i with iter := it })

/-! ## L6  candidate verification (index/matchiter.go `matchContent`, index/bits.go `caseFoldingEqualsRunes`) -/

/-- `unicode.ToLower` on the alphabet the correspondence harness uses (it checks every rune it sends against Go's table;
    theorems about verification take the lower-casing function as a parameter) -/
def toLowerRune (c : Nat) : Nat :=
  if 65 ≤ c ∧ c ≤ 90 then c + 32
  else if 192 ≤ c ∧ c ≤ 222 ∧ c ≠ 215 then c + 32
  else if 913 ≤ c ∧ c ≤ 929 then c + 32          -- Α..Ρ
  else if 931 ≤ c ∧ c ≤ 939 then c + 32          -- Σ..Ϋ
  else if 8544 ≤ c ∧ c ≤ 8559 then c + 16        -- ROMAN NUMERAL ONE..ONE THOUSAND (cased, category Nl)
  else if 9398 ≤ c ∧ c ≤ 9423 then c + 26        -- CIRCLED LATIN CAPITAL LETTER A..Z (cased, category So)
  else if c = 8490 then 107                       -- KELVIN SIGN
  else c

/-- case-sensitive: the pattern is a prefix of the text at the offset; case-insensitive: the lowered pattern equals,
    rune by rune, the lower-casing of the text (`caseFoldingEqualsRunes`, whose ASCII fast path computes the same) -/
def matchAt (caseSens : Bool) (pat text : List Nat) (off : Nat) : Bool :=
  let t := text.drop off
  if caseSens then pat.isPrefixOf t else pat.isPrefixOf (t.map toLowerRune)

/-! ## L7  match trees (index/matchtree.go) -/

inductive St where
  | higher   -- matchesRequiresHigherCost
  | found    -- matchesFound
  | none     -- matchesNone
  deriving Repr, DecidableEq, BEq

def St.pred (b : Bool) : St := if b then .found else .none

/-- `notMatchTree.matches` on its child's answer -/
def St.neg : St → St
  | .higher => .higher
  | .found => .none
  | .none => .found

/-- `substrMatchTree` (+ its `ngramIterationResults` / `ngramDocIterator`; `it = none` is the `noMatchTree` iterator
    that `iterateNgrams` returns when some trigram of the pattern does not occur in the shard) -/
structure Sub where
  fileName : Bool
  caseSens : Bool
  pat : List Nat
  it : Option DocIter
  current : List Nat
  contEvaluated : Bool
  deriving Repr

/-- the documents' texts and liveness, as the shard holds them -/
structure Ctx where
  names : List (List Nat)
  contents : List (List Nat)
  live : List Bool
  deriving Repr

def Ctx.text (c : Ctx) (fileName : Bool) (doc : Nat) : List Nat :=
  if fileName then c.names.getD doc [] else c.contents.getD doc []

mutual
/-- match trees. `k` = the entry of the per-document `known` map for this node (`none` = absent). Leaves whose
    `matches` never answers `matchesRequiresHigherCost`, or that keep their own `evaluated` flag, need no entry:
    `evalMatchTree` would store exactly what they recompute. -/
inductive MT where
  /-- `docMatchTree` (`br = false`) and `branchQueryMatchTree` (`br = true`): a per-document predicate, tabulated -/
  | doc (br : Bool) (bits : List Bool) (firstDone : Bool) (docID : Nat)
  | brute (firstDone : Bool) (docID : Nat)
  /-- `noMatchTree` used as a match tree -/
  | none
  /-- `regexpMatchTree` (`word = false`) and `wordMatchTree` (`word = true`): the engine's verdict per document is a
      parameter (`bits`) -/
  | re (word fileName : Bool) (bits : List Bool) (firstDone : Bool) (docID : Nat) (evaluated found : Bool)
  | sub (s : Sub)
  | and (k : Option Bool) (ch : MTs)
  /-- `andLineMatchTree`: `k` is the entry of the node itself, `kin` the entry of its embedded `andMatchTree` -/
  | andLine (k kin : Option Bool) (ch : MTs)
  | or (k : Option Bool) (ch : MTs)
  | not (k : Option Bool) (c : MT)
  | fileName (k : Option Bool) (c : MT)
  | boost (k : Option Bool) (c : MT)
  /-- `noVisitMatchTree` embeds its child: `matches`, `nextDoc`, `prepare` are the child's own methods -/
  | noVisit (c : MT)
inductive MTs where
  | nil
  | cons (h : MT) (t : MTs)
end

def MTs.toList : MTs → List MT
  | .nil => []
  | .cons h t => h :: t.toList

def MTs.ofList : List MT → MTs
  | [] => .nil
  | h :: t => .cons h (MTs.ofList t)

def MTs.length : MTs → Nat
  | .nil => 0
  | .cons _ t => t.length + 1

/-- the `for i := start; i < numDocs; i++ { if predicate(i) { return i } }` loop, scanning the table from index `i` -/
def firstSetAux : List Bool → Nat → Nat → Nat
  | [], _, _ => maxU32
  | b :: rest, i, start => if start ≤ i ∧ b = true then i else firstSetAux rest (i + 1) start

/-- first index `≥ start` whose bit is set (`docMatchTree.nextDoc`, `branchQueryMatchTree.nextDoc`), else the sentinel -/
def firstSet (bits : List Bool) (start : Nat) : Nat := firstSetAux bits 0 start

/-! ### nextDoc -/
mutual
def MT.nextDoc : MT → Nat × MT
  | .doc br bits fd id => (firstSet bits (if fd then id + 1 else 0), .doc br bits fd id)
  | .brute fd id => (if fd then id + 1 else 0, .brute fd id)
  | .none => (maxU32, .none)
  | .re w f bits fd id ev fo => (if fd then id + 1 else 0, .re w f bits fd id ev fo)
  | .sub s =>
    match s.it with
    | Option.none => (maxU32, .sub s)
    | some it => let (n, it') := it.nextDoc; (n, .sub { s with it := some it' })
  | .and k ch => let (n, ch') := MTs.nextDocMax ch 0; (n, .and k ch')
  | .andLine k kin ch => let (n, ch') := MTs.nextDocMax ch 0; (n, .andLine k kin ch')
  | .or k ch => let (n, ch') := MTs.nextDocMin ch maxU32; (n, .or k ch')
  | .not k c => (0, .not k c)
  | .fileName k c => let (n, c') := c.nextDoc; (n, .fileName k c')
  | .boost k c => let (n, c') := c.nextDoc; (n, .boost k c')
  | .noVisit c => let (n, c') := c.nextDoc; (n, .noVisit c')
/-- `andMatchTree.nextDoc`: the maximum over the children -/
def MTs.nextDocMax : MTs → Nat → Nat × MTs
  | .nil, acc => (acc, .nil)
  | .cons h t, acc =>
    let (m, h') := h.nextDoc
    let (n, t') := MTs.nextDocMax t (if m > acc then m else acc)
    (n, .cons h' t')
/-- `orMatchTree.nextDoc`: the minimum over the children -/
def MTs.nextDocMin : MTs → Nat → Nat × MTs
  | .nil, acc => (acc, .nil)
  | .cons h t, acc =>
    let (m, h') := h.nextDoc
    let (n, t') := MTs.nextDocMin t (if m < acc then m else acc)
    (n, .cons h' t')
end

/-! ### prepare (also starts the document's fresh `known` map: every entry is cleared) -/
def Sub.prepare (s : Sub) (doc : Nat) : Sub :=
  match s.it with
  | Option.none => { s with current := [], contEvaluated := false }
  | some it =>
    let (cs, it') := (it.prepare doc).candidates
    { s with it := some it', current := cs, contEvaluated := false }

mutual
def MT.prepare (doc : Nat) : MT → MT
  | .doc br bits _ _ => .doc br bits true doc
  | .brute _ _ => .brute true doc
  | .none => .none
  | .re w f bits _ _ _ _ => .re w f bits true doc false false
  | .sub s => .sub (s.prepare doc)
  | .and _ ch => .and Option.none (MTs.prepare doc ch)
  | .andLine _ _ ch => .andLine Option.none Option.none (MTs.prepare doc ch)
  | .or _ ch => .or Option.none (MTs.prepare doc ch)
  | .not _ c => .not Option.none (c.prepare doc)
  | .fileName _ c => .fileName Option.none (c.prepare doc)
  | .boost _ c => .boost Option.none (c.prepare doc)
  | .noVisit c => .noVisit (c.prepare doc)
def MTs.prepare (doc : Nat) : MTs → MTs
  | .nil => .nil
  | .cons h t => .cons (h.prepare doc) (MTs.prepare doc t)
end

/-! ### matches / evalMatchTree -/

def costMemory : Nat := 1
def costContent : Nat := 2
def costRegexp : Nat := 3
def costMax : Nat := 3

/-- `substrMatchTree.matches` -/
def Sub.matches (ctx : Ctx) (doc cost : Nat) (s : Sub) : St × Sub :=
  if s.contEvaluated then (St.pred (!s.current.isEmpty), s)
  else if s.current.isEmpty then (.none, s)
  else if s.fileName && decide (cost < costMemory) then (.higher, s)
  else if !s.fileName && decide (cost < costContent) then (.higher, s)
  else
    let pruned := s.current.filter (fun off => matchAt s.caseSens s.pat (ctx.text s.fileName doc) off)
    (St.pred (!pruned.isEmpty), { s with current := pruned, contEvaluated := true })

/-! the same-line check of `andLineMatchTree.matches`, on rune offsets (the rune→byte map is monotone) -/

/-- rune offsets of the newlines of a text -/
def newlineOffsets (text : List Nat) : List Nat :=
  (List.range text.length).filter (fun i => text.getD i 0 == 10)

/-- `newlines.atOffset` -/
def atOffset (nls : List Nat) (off : Nat) : Nat := (nls.filter (· < off)).length + 1

/-- `newlines.lineStart` -/
def lineStart (nls : List Nat) (fileSize : Nat) (line : Nat) : Nat :=
  if line < 2 then 0
  else if line - 2 ≥ nls.length then fileSize
  else nls.getD (line - 2) 0 + 1

/-- the `lines` slice: one `[start, end)` per distinct line of the candidates of the child with fewest candidates -/
def lineRanges (nls : List Nat) (fileSize : Nat) : List Nat → Option Nat → List (Nat × Nat)
  | [], _ => []
  | off :: rest, prev =>
    let line := atOffset nls off
    if prev = some line then lineRanges nls fileSize rest prev
    else (lineStart nls fileSize line, lineStart nls fileSize (line + 1)) :: lineRanges nls fileSize rest (some line)

/-- the `nextChild` loop for one line: hits among the other children, their advanced candidate lists, and the offset
    that made the Go code jump to a later line (`continue nextLine`), if any -/
def scanChildren (start stop : Nat) : List (List Nat) → Nat × List (List Nat) × Option Nat
  | [] => (0, [], Option.none)
  | c :: rest =>
    match c.dropWhile (· < start) with
    | [] => let (h, r, j) := scanChildren start stop rest; (h, [] :: r, j)
    | bo :: c' =>
      if bo < stop then let (h, r, j) := scanChildren start stop rest; (h + 1, (bo :: c') :: r, j)
      else (0, (bo :: c') :: rest, some bo)

/-- the `nextLine` loop; fuel = number of lines + 1 (every round drops at least one line) -/
def lineLoop : Nat → List (Nat × Nat) → List (List Nat) → Nat → Bool
  | 0, _, _, _ => false
  | _ + 1, [], _, _ => false
  | fuel + 1, (s, e) :: ls, ch, n =>
    match scanChildren s e ch with
    | (h, ch', Option.none) => if h + 1 = n then true else lineLoop fuel ls ch' n
    | (_, ch', some bo) => lineLoop fuel (((s, e) :: ls).dropWhile (fun l => decide (bo ≥ l.2))) ch' n

/-- index of the first child with the fewest candidates (`len(v.current) < minCount`) -/
def fewestIdx : List (List Nat) → Nat → Nat → Nat → Nat
  | [], _, _, best => best
  | c :: rest, ix, minCount, best =>
    if c.length < minCount then fewestIdx rest (ix + 1) c.length ix else fewestIdx rest (ix + 1) minCount best

/-- the candidate list of a child that is a content `substrMatchTree` -/
def MT.contentSub : MT → Option (List Nat)
  | .sub s => if s.fileName then Option.none else some s.current
  | _ => Option.none

/-- the candidate lists of the children if all of them are content `substrMatchTree`s -/
def MTs.contentSubs : MTs → Option (List (List Nat))
  | .nil => some []
  | .cons h t =>
    match h.contentSub with
    | Option.none => Option.none
    | some l => (MTs.contentSubs t).map (l :: ·)

def removeAt {α} : List α → Nat → List α
  | [], _ => []
  | _ :: t, 0 => t
  | h :: t, n + 1 => h :: removeAt t n

/-- the part of `andLineMatchTree.matches` after its embedded and-tree answered `matchesFound`; the argument is the
    candidate lists of the children if all of them are content `substrMatchTree`s -/
def sameLineOf (ctx : Ctx) (doc : Nat) : Option (List (List Nat)) → St
  | Option.none => .found
  | some cands =>
    let text := ctx.text false doc
    let nls := newlineOffsets text
    let few := fewestIdx cands 0 (maxU32 * maxU32) 0
    let lines := lineRanges nls text.length (cands.getD few []) Option.none
    St.pred (lineLoop (lines.length + 1) lines (removeAt cands few) cands.length)

def sameLine (ctx : Ctx) (doc : Nat) (ch : MTs) : St := sameLineOf ctx doc (MTs.contentSubs ch)

mutual
/-- `evalMatchTree(cp, cost, known, mt)` = the `known` lookup, `mt.matches`, and the store -/
def MT.eval (ctx : Ctx) (doc cost : Nat) : MT → St × MT
  | .doc br bits fd id => (St.pred (bits.getD id false), .doc br bits fd id)
  | .brute fd id => (.found, .brute fd id)
  | .none => (.none, .none)
  | .re w f bits fd id ev fo =>
    if ev then (St.pred fo, .re w f bits fd id ev fo)
    else if cost < costRegexp then (.higher, .re w f bits fd id ev fo)
    else let v := bits.getD id false; (St.pred v, .re w f bits fd id true v)
  | .sub s => let (st, s') := s.matches ctx doc cost; (st, .sub s')
  | .and k ch =>
    match k with
    | some v => (St.pred v, .and k ch)
    | Option.none =>
      let (st, ch') := MTs.evalAnd ctx doc cost ch
      (st, .and (if st = .higher then Option.none else some (st = .found)) ch')
  | .andLine k kin ch =>
    match k with
    | some v => (St.pred v, .andLine k kin ch)
    | Option.none =>
      -- evalMatchTree(cp, cost, known, &t.andMatchTree)
      let r : St × Option Bool × MTs :=
        match kin with
        | some v => (St.pred v, kin, ch)
        | Option.none =>
          let (st, ch') := MTs.evalAnd ctx doc cost ch
          (st, (if st = St.higher then Option.none else some (decide (st = St.found))), ch')
      let st := if r.1 = St.found then sameLine ctx doc r.2.2 else r.1
      (st, .andLine (if st = St.higher then Option.none else some (decide (st = St.found))) r.2.1 r.2.2)
  | .or k ch =>
    match k with
    | some v => (St.pred v, .or k ch)
    | Option.none =>
      let (st, ch') := MTs.evalOr ctx doc cost ch
      (st, .or (if st = .higher then Option.none else some (st = .found)) ch')
  | .not k c =>
    match k with
    | some v => (St.pred v, .not k c)
    | Option.none =>
      let (sc, c') := c.eval ctx doc cost
      let st := sc.neg
      (st, .not (if st = .higher then Option.none else some (st = .found)) c')
  | .fileName k c =>
    match k with
    | some v => (St.pred v, .fileName k c)
    | Option.none =>
      let (st, c') := c.eval ctx doc cost
      (st, .fileName (if st = .higher then Option.none else some (st = .found)) c')
  | .boost k c =>
    match k with
    | some v => (St.pred v, .boost k c)
    | Option.none =>
      let (st, c') := c.eval ctx doc cost
      (st, .boost (if st = .higher then Option.none else some (st = .found)) c')
  | .noVisit c => let (st, c') := c.eval ctx doc cost; (st, .noVisit c')
/-- `andMatchTree.matches`: stops at the first child that answers `matchesNone` -/
def MTs.evalAnd (ctx : Ctx) (doc cost : Nat) : MTs → St × MTs
  | .nil => (.found, .nil)
  | .cons h t =>
    let (sh, h') := h.eval ctx doc cost
    match sh with
    | .none => (.none, .cons h' t)
    | .higher =>
      let (stl, t') := MTs.evalAnd ctx doc cost t
      ((if stl = .none then St.none else St.higher), .cons h' t')
    | .found =>
      let (stl, t') := MTs.evalAnd ctx doc cost t
      (stl, .cons h' t')
/-- `orMatchTree.matches`: evaluates every child, answers the most conservative state -/
def MTs.evalOr (ctx : Ctx) (doc cost : Nat) : MTs → St × MTs
  | .nil => (.none, .nil)
  | .cons h t =>
    let (sh, h') := h.eval ctx doc cost
    let (stl, t') := MTs.evalOr ctx doc cost t
    let st := match sh, stl with
      | .higher, _ => St.higher
      | _, .higher => St.higher
      | .found, _ => St.found
      | .none, s => s
    (st, .cons h' t')
end

/-! ## L8  pruneMatchTree -/
mutual
/-- `pruneMatchTree`; `none` is Go's `nil` (the tree cannot match anything in this shard) -/
def MT.prune : MT → Option MT
  | .sub s => if s.it.isNone then Option.none else some (.sub s)
  | .and k ch => (MTs.pruneAnd ch).map (MT.and k)
  | .andLine k kin ch => (MTs.pruneAnd ch).map (MT.andLine k kin)
  | .or k ch =>
    match MTs.pruneOr ch with
    | .nil => Option.none
    | .cons h .nil => some h
    | ch' => some (.or k ch')
  | .noVisit c => c.prune.map MT.noVisit
  | .fileName k c => c.prune.map (MT.fileName k)
  | .boost k c => c.prune.map (MT.boost k)
  | .not k c =>
    match c.prune with
    | Option.none => some (.brute false 0)
    | some c' => some (.not k c')
  | t => some t
def MTs.pruneAnd : MTs → Option MTs
  | .nil => some .nil
  | .cons h t =>
    match h.prune with
    | Option.none => Option.none
    | some h' => (MTs.pruneAnd t).map (MTs.cons h')
def MTs.pruneOr : MTs → MTs
  | .nil => .nil
  | .cons h t =>
    match h.prune with
    | Option.none => MTs.pruneOr t
    | some h' => .cons h' (MTs.pruneOr t)
end

/-! ## the Search loop (index/eval.go `indexData.Search`, no limits) -/

/-- the `for cost := costMin; cost <= costMax; cost++` loop; returns the states seen (for the correspondence), whether
    the document matches, and the tree. `none` as the verdict is the `log.Panicf("did not decide")` outcome. -/
def evalCosts (ctx : Ctx) (doc : Nat) : Nat → Nat → MT → List St → List St × Option Bool × MT
  | 0, _, mt, acc => (acc.reverse, some true, mt)
  | n + 1, cost, mt, acc =>
    let (st, mt') := mt.eval ctx doc cost
    match st with
    | .none => ((st :: acc).reverse, some false, mt')
    | .higher => if cost = costMax then ((st :: acc).reverse, Option.none, mt') else evalCosts ctx doc n (cost + 1) mt' (st :: acc)
    | .found => evalCosts ctx doc n (cost + 1) mt' (st :: acc)

/-- first live document at or after `d` (tombstoned repositories and file-tombstoned paths are skipped) -/
def nextLive (live : List Bool) : Nat → Nat → Nat
  | 0, d => d
  | fuel + 1, d => if d < live.length ∧ live.getD d false = false then nextLive live fuel (d + 1) else d

structure Visit where
  doc : Nat
  raw : Nat
  states : List St
  deriving Repr

/- candidate lists of the substring leaves, in tree order (observed after `prepare`) -/
mutual
def MT.subCands : MT → List (List Nat)
  | .sub s => [s.current]
  | .and _ ch => MTs.subCands ch
  | .andLine _ _ ch => MTs.subCands ch
  | .or _ ch => MTs.subCands ch
  | .not _ c => c.subCands
  | .fileName _ c => c.subCands
  | .boost _ c => c.subCands
  | .noVisit c => c.subCands
  | _ => []
def MTs.subCands : MTs → List (List Nat)
  | .nil => []
  | .cons h t => h.subCands ++ MTs.subCands t
end

structure SearchOut where
  visits : List (Visit × List (List Nat))
  lastRaw : Nat
  res : List Nat
  panicked : Bool

/-- the `nextFileMatch` loop. `lastDoc1` is `lastDoc + 1` (so that -1 is 0). Fuel: number of documents + 1. -/
def searchLoop (ctx : Ctx) : Nat → MT → Nat → List (Visit × List (List Nat)) → List Nat → SearchOut
  | 0, _, _, vs, res => ⟨vs.reverse, maxU32, res.reverse, false⟩
  | fuel + 1, mt, lastDoc1, vs, res =>
    let (raw, mt1) := mt.nextDoc
    let nd0 := if raw < lastDoc1 then lastDoc1 else raw     -- `if int(nextDoc) <= lastDoc { nextDoc = lastDoc + 1 }`
    let nd := nextLive ctx.live ctx.live.length nd0
    if nd ≥ ctx.live.length then ⟨vs.reverse, raw, res.reverse, false⟩
    else
      let mt2 := mt1.prepare nd
      let cands := mt2.subCands
      let (sts, verdict, mt3) := evalCosts ctx nd 4 0 mt2 []
      let v : Visit := ⟨nd, raw, sts⟩
      match verdict with
      | Option.none => ⟨((v, cands) :: vs).reverse, raw, res.reverse, true⟩
      | some true => searchLoop ctx fuel mt3 (nd + 1) ((v, cands) :: vs) (nd :: res)
      | some false => searchLoop ctx fuel mt3 (nd + 1) ((v, cands) :: vs) res

/-- `indexData.Search` from the constructed match tree on: prune, then the document loop -/
def search (ctx : Ctx) (mt : MT) : Option SearchOut :=
  match mt.prune with
  | Option.none => Option.none
  | some t => some (searchLoop ctx (ctx.live.length + 1) t 0 [] [])

/-! ## L12  b-tree over the sorted ngram section (index/btree.go) -/

inductive BNode where
  | leaf (bucketIndex postingIndexOffset bucketSize : Nat) (splitKey : Nat)
  | inner (keys : List Nat) (children : List BNode)
  deriving Repr

end ZoektModel.C01
