/-
C01 — `variants_cover`: `generateCaseNgrams` yields every element of the product of the fold orbits (and terminates).
-/
import ZoektModel.C01.CaseVariants
import ZoektModel.C01.Model
namespace ZoektModel.C01

/-- `f` applied `n` times -/
def iter {α} (f : α → α) : Nat → α → α
  | 0, x => x
  | n + 1, x => f (iter f n x)

/-- `k` is the length of the fold cycle through `o` -/
structure Cyc (fold : Nat → Nat) (o k : Nat) : Prop where
  pos : 0 < k
  back : iter fold k o = o
  first : ∀ j, 0 < j → j < k → iter fold j o ≠ o

theorem iterate_succ' {α} (f : α → α) (n : Nat) (x : α) : iter f (n + 1) x = f (iter f n x) := rfl

theorem div_mod_succ_lt (t k : Nat) (hk : 0 < k) (h : t % k + 1 < k) : (t + 1) % k = t % k + 1 ∧ (t + 1) / k = t / k := by
  have e : t + 1 = k * (t / k) + (t % k + 1) := by have := Nat.div_add_mod t k; omega
  constructor
  · rw [e, Nat.mul_add_mod, Nat.mod_eq_of_lt h]
  · rw [e, Nat.mul_add_div hk, Nat.div_eq_of_lt h]; omega

theorem div_mod_succ_eq (t k : Nat) (hk : 0 < k) (h : t % k + 1 = k) : (t + 1) % k = 0 ∧ (t + 1) / k = t / k + 1 := by
  have e : t + 1 = k * (t / k + 1) + 0 := by
    have := Nat.div_add_mod t k
    rw [Nat.mul_add, Nat.mul_one]; omega
  constructor
  · rw [e, Nat.mul_add_mod]; simp
  · rw [e, Nat.mul_add_div hk]; simp

/-- the state after `t` rounds: digit 0 is `t mod k`, the rest is the odometer of the tail after `t / k` rounds -/
theorem stepL_iterate (fold : Nat → Nat) (o k : Nat) (os : List Nat) (hc : Cyc fold o k) : ∀ t,
    iter (stepL fold (o :: os)) t (o :: os) = iter fold (t % k) o :: iter (stepL fold os) (t / k) os := by
  intro t
  induction t with
  | zero => simp [iter]
  | succ t ih =>
    rw [iterate_succ', ih]
    simp only [stepL]
    have hlt : t % k < k := Nat.mod_lt _ hc.pos
    by_cases hr : t % k + 1 < k
    · obtain ⟨e1, e2⟩ := div_mod_succ_lt t k hc.pos hr
      have hne : fold (iter fold (t % k) o) ≠ o := hc.first (t % k + 1) (by omega) hr
      simp only [hne, ne_eq, not_false_eq_true, if_true]
      rw [e1, e2, iterate_succ']
    · have hr' : t % k + 1 = k := by omega
      obtain ⟨e1, e2⟩ := div_mod_succ_eq t k hc.pos hr'
      have heq : fold (iter fold (t % k) o) = o := by
        have := hc.back; rw [← hr'] at this; exact this
      simp only [heq, ne_eq, not_true_eq_false, if_false]
      rw [e1, e2, iterate_succ']
      rfl


theorem iter_add {α} (f : α → α) (a b : Nat) (x : α) : iter f (a + b) x = iter f a (iter f b x) := by
  induction a with
  | zero => simp [iter]
  | succ a ih => rw [Nat.succ_add, iterate_succ', ih]; rfl

theorem iter_period (fold : Nat → Nat) (o k : Nat) (hc : Cyc fold o k) : ∀ m a, iter fold (a + k * m) o = iter fold a o := by
  intro m
  induction m with
  | zero => intro a; simp
  | succ m ih =>
    intro a
    have : a + k * (m + 1) = (a + k * m) + k := by rw [Nat.mul_succ]; omega
    rw [this, iter_add, hc.back, ih]

theorem iter_mod (fold : Nat → Nat) (o k : Nat) (hc : Cyc fold o k) (j : Nat) : iter fold j o = iter fold (j % k) o := by
  have := iter_period fold o k hc (j / k) (j % k)
  rw [← this]
  congr 1
  have := Nat.div_add_mod j k
  omega

/-- the tuple lies in the product of the fold orbits of `orig` -/
def InOrbits (fold : Nat → Nat) : List Nat → List Nat → Prop
  | [], [] => True
  | o :: os, c :: cs => (∃ j, iter fold j o = c) ∧ InOrbits fold os cs
  | _, _ => False

/-- the odometer over `orig` has period `N`, returns to `orig` for the first time after `N` rounds, and passes through
    every tuple of the product of the orbits -/
structure Odo (fold : Nat → Nat) (orig : List Nat) (N : Nat) : Prop where
  pos : 0 < N
  back : iter (stepL fold orig) N orig = orig
  first : ∀ q, 0 < q → q < N → iter (stepL fold orig) q orig ≠ orig
  cover : ∀ tuple, InOrbits fold orig tuple → ∃ s, s < N ∧ iter (stepL fold orig) s orig = tuple

theorem iter_stepL_nil (fold : Nat → Nat) : ∀ t, iter (stepL fold []) t [] = [] := by
  intro t
  induction t with
  | zero => rfl
  | succ t ih => rw [iterate_succ', ih]; rfl

theorem odo_nil (fold : Nat → Nat) : Odo fold [] 1 :=
  ⟨by omega, iter_stepL_nil fold 1, fun q h1 h2 => by omega, fun tuple h => by
    cases tuple with
    | nil => exact ⟨0, by omega, rfl⟩
    | cons _ _ => simp [InOrbits] at h⟩

theorem odo_cons (fold : Nat → Nat) (o k : Nat) (os : List Nat) (M : Nat) (hc : Cyc fold o k) (ho : Odo fold os M) :
    Odo fold (o :: os) (k * M) := by
  have hit := stepL_iterate fold o k os hc
  refine ⟨Nat.mul_pos hc.pos ho.pos, ?_, ?_, ?_⟩
  · rw [hit, Nat.mul_mod_right, Nat.mul_div_cancel_left _ hc.pos, ho.back]; rfl
  · intro q hq1 hq2 heq
    rw [hit] at heq
    have h1 : iter fold (q % k) o = o := (List.cons.inj heq).1
    have h2 : iter (stepL fold os) (q / k) os = os := (List.cons.inj heq).2
    have hmod : q % k = 0 := by
      apply Classical.byContradiction
      intro hne
      exact hc.first (q % k) (by omega) (Nat.mod_lt _ hc.pos) h1
    have hdm := Nat.div_add_mod q k
    have hdiv_pos : 0 < q / k := by
      apply Nat.pos_of_ne_zero
      intro h0
      rw [h0, hmod] at hdm
      simp at hdm
      omega
    have hdiv_lt : q / k < M := Nat.div_lt_of_lt_mul hq2
    exact ho.first (q / k) hdiv_pos hdiv_lt h2
  · intro tuple htup
    cases tuple with
    | nil => simp [InOrbits] at htup
    | cons c cs =>
      obtain ⟨⟨j, hj⟩, hcs⟩ := htup
      obtain ⟨s, hs, hs2⟩ := ho.cover cs hcs
      refine ⟨k * s + j % k, ?_, ?_⟩
      · have := Nat.mod_lt j hc.pos
        calc k * s + j % k < k * s + k := by omega
          _ = k * (s + 1) := by rw [Nat.mul_succ]
          _ ≤ k * M := Nat.mul_le_mul_left k (by omega)
      · rw [hit]
        have e1 : (k * s + j % k) % k = j % k := by
          rw [Nat.mul_add_mod, Nat.mod_mod]
        have e2 : (k * s + j % k) / k = s := by
          rw [Nat.mul_add_div hc.pos, Nat.div_eq_of_lt (Nat.mod_lt j hc.pos)]; omega
        rw [e1, e2, hs2, ← iter_mod fold o k hc j, hj]

/-- the loop of `generateCaseNgrams` walks the odometer for exactly one period -/
theorem genLoop_eq (fold : Nat → Nat) (orig : List Nat) (N : Nat) (ho : Odo fold orig N) : ∀ (d t fuel : Nat)
    (acc : List (List Nat)), t + d = N → 0 < d → d ≤ fuel →
    genLoop fold orig fuel (iter (stepL fold orig) t orig) acc =
      acc.reverse ++ (List.range' (t + 1) d).map (fun i => iter (stepL fold orig) i orig) := by
  intro d
  induction d with
  | zero => intro t fuel acc _ h; omega
  | succ d ih =>
    intro t fuel acc htd _ hfuel
    cases fuel with
    | zero => omega
    | succ fuel =>
      rw [genLoop]
      have hn : stepL fold orig (iter (stepL fold orig) t orig) = iter (stepL fold orig) (t + 1) orig := rfl
      simp only [hn]
      by_cases hlast : d = 0
      · subst hlast
        have : t + 1 = N := by omega
        rw [this, ho.back]
        simp [List.range', ho.back]
      · have hne : iter (stepL fold orig) (t + 1) orig ≠ orig := ho.first (t + 1) (by omega) (by omega)
        simp only [hne, if_false]
        rw [ih (t + 1) fuel _ (by omega) (by omega) (by omega)]
        simp [List.range'_succ, List.reverse_cons, List.append_assoc]

/-- **`variants_cover`**: with enough fuel, `generateCaseNgrams` returns exactly one period of the odometer, hence every
    tuple of the product of the fold orbits — and it terminates after `N` rounds -/
theorem generateCase_cover (fold : Nat → Nat) (orig : List Nat) (N : Nat) (ho : Odo fold orig N) (fuel : Nat)
    (hf : N ≤ fuel) (tuple : List Nat) (ht : InOrbits fold orig tuple) : tuple ∈ generateCase fold orig fuel := by
  have e := genLoop_eq fold orig N ho N 0 fuel [] (by omega) ho.pos hf
  have e0 : iter (stepL fold orig) 0 orig = orig := rfl
  rw [e0] at e
  unfold generateCase
  rw [e]
  simp only [List.reverse_nil, List.nil_append, List.mem_map, List.mem_range'_1]
  obtain ⟨s, hs, hs2⟩ := ho.cover tuple ht
  by_cases hs0 : s = 0
  · subst hs0
    refine ⟨N, ⟨by have := ho.pos; omega, by omega⟩, ?_⟩
    rw [ho.back]; exact hs2
  · exact ⟨s, ⟨by omega, by omega⟩, hs2⟩


theorem odo_three (fold : Nat → Nat) (a b c k0 k1 k2 : Nat) (ha : Cyc fold a k0) (hb : Cyc fold b k1)
    (hc : Cyc fold c k2) : Odo fold [a, b, c] (k0 * (k1 * (k2 * 1))) :=
  odo_cons fold a k0 _ _ ha (odo_cons fold b k1 _ _ hb (odo_cons fold c k2 _ _ hc (odo_nil fold)))

/-- FoldAgree on the runes of `g`: whatever lower-cases like a rune of `g` is in that rune's fold orbit -/
def FoldAgreeL (fold : Nat → Nat) : List Nat → Prop
  | [] => True
  | o :: os => (∀ c', toLowerRune c' = toLowerRune o → ∃ j, iter fold j o = c') ∧ FoldAgreeL fold os

theorem inOrbits_of_lower (fold : Nat → Nat) : ∀ (g g' : List Nat), FoldAgreeL fold g →
    g'.map toLowerRune = g.map toLowerRune → InOrbits fold g g' := by
  intro g
  induction g with
  | nil => intro g' _ h; cases g' with
    | nil => trivial
    | cons _ _ => simp at h
  | cons o os ih =>
    intro g' ha h
    cases g' with
    | nil => simp at h
    | cons c cs =>
      simp only [List.map_cons, List.cons.injEq] at h
      exact ⟨ha.1 c h.1, ih cs ha.2 h.2⟩

/-- **the variants generated for a trigram contain every rune triple that lower-cases like it** (under FoldAgree) -/
theorem variants_cover_lower (fold : Nat → Nat) (g : List Nat) (N fuel : Nat) (ho : Odo fold g N) (hf : N ≤ fuel)
    (ha : FoldAgreeL fold g) (g' : List Nat) (h : g'.map toLowerRune = g.map toLowerRune) :
    g' ∈ generateCase fold g fuel :=
  generateCase_cover fold g N ho fuel hf g' (inOrbits_of_lower fold g g' ha h)

end ZoektModel.C01
