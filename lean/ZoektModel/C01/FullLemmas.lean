/-
C01 — composition for ALL modelled match trees: the fragment of SubstrLemmas.lean extended with the nodes that regexp
atoms produce — `noVisit` pre-filters and same-line `andLine` nodes over substring leaves.
-/
import ZoektModel.C01.SubstrLemmas
import ZoektModel.C01.LineLemmas
namespace ZoektModel.C01

/-! ### static data of substring leaves; the scan meaning of the same-line conjunct -/

/-- (fileName, caseSensitive, pattern) of a substring leaf -/
def MT.stat : MT → Option (Bool × Bool × List Nat)
  | .sub s => some (s.fileName, s.caseSens, s.pat)
  | _ => Option.none

def MTs.stats : MTs → List (Option (Bool × Bool × List Nat))
  | .nil => []
  | .cons h t => h.stat :: MTs.stats t

/-- all offsets at which the pattern occurs in the content of document `d`, by scanning -/
def occList (ctx : Ctx) (cs : Bool) (pat : List Nat) (d : Nat) : List Nat :=
  (List.range ((ctx.text false d).length + 1)).filter (fun o => matchAt cs pat (ctx.text false d) o)

def lcOfStat (ctx : Ctx) (d : Nat) : Option (Bool × Bool × List Nat) → Option (List Nat)
  | some (false, cs, pat) => some (occList ctx cs pat d)
  | _ => Option.none

def lineCandsOfStats (ctx : Ctx) (d : Nat) : List (Option (Bool × Bool × List Nat)) → Option (List (List Nat))
  | [] => some []
  | st :: rest =>
    match lcOfStat ctx d st with
    | Option.none => Option.none
    | some l => (lineCandsOfStats ctx d rest).map (l :: ·)

/-- scan meaning of the same-line conjunct of an `andLine` node: if all children are content substring leaves, some
    line of the document holds an occurrence of every child's pattern (`andLine_same_line`); otherwise nothing is asked -/
def lineSemC (ctx : Ctx) (ch : MTs) (d : Nat) : Bool :=
  decide (sameLineOf ctx d (lineCandsOfStats ctx d (MTs.stats ch)) = St.found)

def MTs.AllSub : MTs → Prop
  | .nil => True
  | .cons (.sub _) t => MTs.AllSub t
  | .cons _ _ => False

abbrev semF (ctx : Ctx) (d : Nat) (t : MT) : Bool := t.sem (subSemX ctx) (lineSemC ctx) d
abbrev semAllF (ctx : Ctx) (d : Nat) (ch : MTs) : Bool := MTs.semAll (subSemX ctx) (lineSemC ctx) d ch
abbrev semAnyF (ctx : Ctx) (d : Nat) (ch : MTs) : Bool := MTs.semAny (subSemX ctx) (lineSemC ctx) d ch

mutual
/-- every modelled tree shape: connectives, `noVisit`, `andLine` over substring leaves, substring leaves with real
    iterators, document predicates, engine-decided atoms -/
def MT.OkF (ctx : Ctx) (L : Nat) : MT → Prop
  | .doc _ _ fd id => fd = true → id < L
  | .brute fd id => fd = true → id < L
  | .none => True
  | .re _ _ _ fd id _ _ => fd = true → id < L
  | .sub s => SubOk ctx L s
  | .and _ ch => MTs.OkFAll ctx L ch
  | .or _ ch => MTs.OkFAll ctx L ch
  | .not _ c => c.OkF ctx L
  | .fileName _ c => c.OkF ctx L
  | .boost _ c => c.OkF ctx L
  | .andLine _ _ ch => MTs.OkFAll ctx L ch ∧ MTs.AllSub ch
  | .noVisit c => c.OkF ctx L
def MTs.OkFAll (ctx : Ctx) (L : Nat) : MTs → Prop
  | .nil => True
  | .cons h t => h.OkF ctx L ∧ MTs.OkFAll ctx L t
end

theorem allSub_of_stats : ∀ (ch ch' : MTs), MTs.stats ch' = MTs.stats ch → MTs.AllSub ch → MTs.AllSub ch'
  | .nil, .nil, _, _ => trivial
  | .nil, .cons _ _, h, _ => by simp [MTs.stats] at h
  | .cons _ _, .nil, h, _ => by simp [MTs.stats] at h
  | .cons a t, .cons a' t', h, hs => by
    simp only [MTs.stats, List.cons.injEq] at h
    cases a with
    | sub s =>
      cases a' with
      | sub s' => exact allSub_of_stats t t' h.2 hs
      | _ => simp [MT.stat] at h
    | _ => simp [MTs.AllSub] at hs

mutual
theorem MT.okF_cur (ctx : Ctx) (hw : ctx.WF) (L : Nat) : (t : MT) → t.OkF ctx L → t.Cur (subSemX ctx) L
  | .doc _ _ _ _, h => h
  | .brute _ _, h => h
  | .none, _ => trivial
  | .re _ _ _ _ _ _ _, h => h
  | .sub s, h => subOk_sound ctx hw L s h
  | .and _ ch, h => MTs.okF_curAll ctx hw L ch h
  | .or _ ch, h => MTs.okF_curAll ctx hw L ch h
  | .not _ _, _ => trivial
  | .fileName _ c, h => MT.okF_cur ctx hw L c h
  | .boost _ c, h => MT.okF_cur ctx hw L c h
  | .andLine _ _ ch, h => MTs.okF_curAll ctx hw L ch h.1
  | .noVisit c, h => MT.okF_cur ctx hw L c h
theorem MTs.okF_curAll (ctx : Ctx) (hw : ctx.WF) (L : Nat) : (ch : MTs) → MTs.OkFAll ctx L ch →
    MTs.CurAll (subSemX ctx) L ch
  | .nil, _ => trivial
  | .cons h t, hh => ⟨MT.okF_cur ctx hw L h hh.1, MTs.okF_curAll ctx hw L t hh.2⟩
end

/-- a step that keeps the tree in the fragment (state `L'`), its meaning and its static data -/
structure KeptF (ctx : Ctx) (L' : Nat) (t t' : MT) : Prop where
  ok : t'.OkF ctx L'
  sem : ∀ d, semF ctx d t' = semF ctx d t
  stat : t'.stat = t.stat

structure KeptAllF (ctx : Ctx) (L' : Nat) (ch ch' : MTs) : Prop where
  ok : MTs.OkFAll ctx L' ch'
  semAll : ∀ d, semAllF ctx d ch' = semAllF ctx d ch
  semAny : ∀ d, semAnyF ctx d ch' = semAnyF ctx d ch
  stats : MTs.stats ch' = MTs.stats ch

theorem KeptF.refl (ctx : Ctx) (L : Nat) (t : MT) (h : t.OkF ctx L) : KeptF ctx L t t := ⟨h, fun _ => rfl, rfl⟩

theorem keptAllF_cons (ctx : Ctx) (L : Nat) (h h' : MT) (t t' : MTs) (r1 : KeptF ctx L h h')
    (r2 : KeptAllF ctx L t t') : KeptAllF ctx L (.cons h t) (.cons h' t') := by
  have a := r1.sem; have b := r2.semAll; have c := r2.semAny
  simp only [semF, semAllF, semAnyF] at a b c
  exact ⟨⟨r1.ok, r2.ok⟩, fun d => by simp only [semAllF, MTs.semAll, a d, b d],
    fun d => by simp only [semAnyF, MTs.semAny, a d, c d], by simp only [MTs.stats, r1.stat, r2.stats]⟩

theorem keptF_wrap (ctx : Ctx) (L : Nat) (c c' : MT) (t t' : MT) (r : KeptF ctx L c c')
    (hok : c'.OkF ctx L → t'.OkF ctx L)
    (hs : ∀ d, semF ctx d c' = semF ctx d c → semF ctx d t' = semF ctx d t) (hst : t'.stat = t.stat) :
    KeptF ctx L t t' := ⟨hok r.ok, fun d => hs d (r.sem d), hst⟩

/-- `andLine` node rebuilt over kept children -/
theorem keptF_andLine (ctx : Ctx) (L : Nat) (k kin k' kin' : Option Bool) (ch ch' : MTs)
    (r : KeptAllF ctx L ch ch') (hs : MTs.AllSub ch) : KeptF ctx L (.andLine k kin ch) (.andLine k' kin' ch') := by
  refine ⟨⟨r.ok, allSub_of_stats ch ch' r.stats hs⟩, fun d => ?_, rfl⟩
  have a := r.semAll d
  simp only [semAllF] at a
  simp only [semF, MT.sem, a, lineSemC, r.stats]

/-! #### nextDoc -/
mutual
theorem MT.nextDoc_keptF (ctx : Ctx) (L : Nat) : (t : MT) → t.OkF ctx L → KeptF ctx L t t.nextDoc.2
  | .doc _ _ _ _, h => KeptF.refl ctx L _ h
  | .brute _ _, h => KeptF.refl ctx L _ h
  | .none, h => KeptF.refl ctx L _ h
  | .re _ _ _ _ _ _ _, h => KeptF.refl ctx L _ h
  | .sub s, h => by
    have r := MT.nextDoc_keptS ctx L (.sub s) h
    refine ⟨?_, ?_, ?_⟩
    · have := r.ok
      simp only [MT.nextDoc] at this ⊢
      cases hit : s.it <;> simp only [hit] at this ⊢ <;> exact this
    · intro d
      simp only [MT.nextDoc]
      cases hit : s.it <;> simp [semF, MT.sem, subSemX, hit]
    · simp only [MT.nextDoc]
      cases hit : s.it <;> simp [MT.stat]
  | .and k ch, h => by
    simp only [MT.nextDoc]
    have r := MTs.nextDocMax_keptF ctx L ch 0 h
    exact ⟨r.ok, r.semAll, rfl⟩
  | .andLine k kin ch, h => by
    simp only [MT.nextDoc]
    exact keptF_andLine ctx L _ _ _ _ _ _ (MTs.nextDocMax_keptF ctx L ch 0 h.1) h.2
  | .or k ch, h => by
    simp only [MT.nextDoc]
    have r := MTs.nextDocMin_keptF ctx L ch maxU32 h
    exact ⟨r.ok, r.semAny, rfl⟩
  | .not k c, h => KeptF.refl ctx L _ h
  | .fileName k c, h => by
    simp only [MT.nextDoc]
    have r := MT.nextDoc_keptF ctx L c h
    exact ⟨r.ok, r.sem, rfl⟩
  | .boost k c, h => by
    simp only [MT.nextDoc]
    have r := MT.nextDoc_keptF ctx L c h
    exact ⟨r.ok, r.sem, rfl⟩
  | .noVisit c, h => by
    simp only [MT.nextDoc]
    have r := MT.nextDoc_keptF ctx L c h
    exact ⟨r.ok, r.sem, rfl⟩
theorem MTs.nextDocMax_keptF (ctx : Ctx) (L : Nat) : (ch : MTs) → (acc : Nat) → MTs.OkFAll ctx L ch →
    KeptAllF ctx L ch (MTs.nextDocMax ch acc).2
  | .nil, _, _ => ⟨trivial, fun _ => rfl, fun _ => rfl, rfl⟩
  | .cons h t, acc, hh => by
    simp only [MTs.nextDocMax]
    exact keptAllF_cons ctx L _ _ _ _ (MT.nextDoc_keptF ctx L h hh.1) (MTs.nextDocMax_keptF ctx L t _ hh.2)
theorem MTs.nextDocMin_keptF (ctx : Ctx) (L : Nat) : (ch : MTs) → (acc : Nat) → MTs.OkFAll ctx L ch →
    KeptAllF ctx L ch (MTs.nextDocMin ch acc).2
  | .nil, _, _ => ⟨trivial, fun _ => rfl, fun _ => rfl, rfl⟩
  | .cons h t, acc, hh => by
    simp only [MTs.nextDocMin]
    exact keptAllF_cons ctx L _ _ _ _ (MT.nextDoc_keptF ctx L h hh.1) (MTs.nextDocMin_keptF ctx L t _ hh.2)
end


/-! #### prepare -/

/-- after `prepare`, the verified candidates of a content substring leaf are exactly (as a list) the offsets at which
    the pattern occurs -/
theorem Sub.prepare_verified (ctx : Ctx) (hw : ctx.WF) (L : Nat) (s : Sub) (h : SubOk ctx L s) (hf : s.fileName = false)
    (nd : Nat) (hL : L ≤ nd) (hnd : nd < ctx.live.length) :
    (s.prepare nd).verified ctx nd = occList ctx s.caseSens s.pat nd := by
  obtain ⟨hp, h3⟩ := h
  have hlen := Ctx.texts_length ctx hw s.fileName
  have hm : ∀ o, matchAt s.caseSens s.pat (ctx.text false nd) o = true ↔ occAt s.pat (s.T ctx) nd o := by
    intro o
    have := matchAt_T ctx s nd o
    rw [hf] at this
    rw [this]; rfl
  have hocc_lt : ∀ o, occAt s.pat (s.T ctx) nd o → o < (ctx.text false nd).length + 1 := by
    intro o ho
    have := occAt_bound s.pat (s.T ctx) nd o hp ho
    have hl := T_getD_length ctx s nd
    rw [hf] at hl
    omega
  cases hit : s.it with
  | none =>
    rw [hit] at h3
    have e : s.prepare nd = Sub.mk s.fileName s.caseSens s.pat Option.none [] false := by
      simp [Sub.prepare, hit]
    rw [e]
    simp only [Sub.verified, Bool.false_eq_true, if_false, List.filter_nil, occList]
    symm
    rw [List.filter_eq_nil_iff]
    intro o _ hmo
    exact h3 nd o ((hm o).mp hmo)
  | some it =>
    rw [hit] at h3
    obtain ⟨i, hi, hsz, hinv⟩ := h3
    obtain ⟨p1, _⟩ := DocIter.prepare_candidates _ s.pat i L it hi hsz hinv nd hL (by rw [Sub.T_length]; omega)
    have hsorted := DocIter.candidates_sorted it hinv.wf nd
    have e : s.prepare nd = Sub.mk s.fileName s.caseSens s.pat (some ((it.prepare nd).candidates.2))
        ((it.prepare nd).candidates.1) false := by
      simp [Sub.prepare, hit]
    rw [e]
    simp only [Sub.verified, Bool.false_eq_true, if_false, occList, hf]
    apply sorted_ext
    · exact List.Pairwise.filter _ hsorted
    · exact List.Pairwise.filter _ List.pairwise_lt_range
    · intro x
      simp only [List.mem_filter, List.mem_range]
      constructor
      · intro ⟨_, hx⟩; exact ⟨hocc_lt x ((hm x).mp hx), hx⟩
      · intro ⟨_, hx⟩; exact ⟨p1 x ((hm x).mp hx), hx⟩

structure PrepF (ctx : Ctx) (nd : Nat) (t t' : MT) : Prop where
  ok : t'.OkF ctx (nd + 1)
  sem : ∀ d, semF ctx d t' = semF ctx d t
  stat : t'.stat = t.stat
  val : t'.val ctx nd = semF ctx nd t
  lc : t'.lc ctx nd = lcOfStat ctx nd t.stat

structure PrepAllF (ctx : Ctx) (nd : Nat) (ch ch' : MTs) : Prop where
  ok : MTs.OkFAll ctx (nd + 1) ch'
  semAll : ∀ d, semAllF ctx d ch' = semAllF ctx d ch
  semAny : ∀ d, semAnyF ctx d ch' = semAnyF ctx d ch
  stats : MTs.stats ch' = MTs.stats ch
  valAll : MTs.valAll ctx nd ch' = semAllF ctx nd ch
  valAny : MTs.valAny ctx nd ch' = semAnyF ctx nd ch
  lcs : MTs.lineCands ctx nd ch' = lineCandsOfStats ctx nd (MTs.stats ch)

mutual
theorem MT.prepare_okF (ctx : Ctx) (hw : ctx.WF) (L nd : Nat) (hL : L ≤ nd) (hnd : nd < ctx.live.length) :
    (t : MT) → t.OkF ctx L → PrepF ctx nd t (t.prepare nd)
  | .doc _ _ _ _, _ => by simp only [MT.prepare]; exact ⟨by simp [MT.OkF], fun _ => rfl, rfl, rfl, rfl⟩
  | .brute _ _, _ => by simp only [MT.prepare]; exact ⟨by simp [MT.OkF], fun _ => rfl, rfl, rfl, rfl⟩
  | .none, _ => by simp only [MT.prepare]; exact ⟨trivial, fun _ => rfl, rfl, rfl, rfl⟩
  | .re _ _ _ _ _ _ _, _ => by simp only [MT.prepare]; exact ⟨by simp [MT.OkF], fun _ => rfl, rfl, rfl, rfl⟩
  | .sub s, h => by
    simp only [MT.prepare]
    obtain ⟨a, b, c⟩ := Sub.prepare_ok ctx hw L s h nd hL hnd
    have hstat : (MT.sub (s.prepare nd)).stat = (MT.sub s).stat := by
      simp only [MT.stat, Sub.prepare]
      cases s.it <;> rfl
    refine ⟨a, fun d => by simp only [semF, MT.sem]; exact c d, hstat,
      by simp only [MT.val, semF, MT.sem]; exact b, ?_⟩
    have hfn : (s.prepare nd).fileName = s.fileName := by
      simp only [Sub.prepare]; cases s.it <;> rfl
    simp only [MT.lc, MT.stat, hfn]
    cases hf : s.fileName with
    | true => simp [lcOfStat]
    | false =>
      simp only [Bool.false_eq_true, if_false, lcOfStat]
      rw [Sub.prepare_verified ctx hw L s h hf nd hL hnd]
  | .and _ ch, h => by
    simp only [MT.prepare]
    have r := MTs.prepare_okF ctx hw L nd hL hnd ch h
    exact ⟨r.ok, r.semAll, rfl, r.valAll, rfl⟩
  | .or _ ch, h => by
    simp only [MT.prepare]
    have r := MTs.prepare_okF ctx hw L nd hL hnd ch h
    exact ⟨r.ok, r.semAny, rfl, r.valAny, rfl⟩
  | .andLine _ _ ch, h => by
    simp only [MT.prepare]
    have r := MTs.prepare_okF ctx hw L nd hL hnd ch h.1
    have a := r.semAll; have va := r.valAll
    simp only [semAllF] at a va
    refine ⟨⟨r.ok, allSub_of_stats ch _ r.stats h.2⟩, fun d => ?_, rfl, ?_, rfl⟩
    · simp only [semF, MT.sem, a d, lineSemC, r.stats]
    · simp only [MT.val, semF, MT.sem, va, r.lcs, lineSemC]
  | .not _ c, h => by
    simp only [MT.prepare]
    have r := MT.prepare_okF ctx hw L nd hL hnd c h
    refine ⟨r.ok, fun d => ?_, rfl, ?_, rfl⟩
    · have a := r.sem d; simp only [semF, MT.sem] at a ⊢; rw [a]
    · have a := r.val; simp only [semF, MT.sem, MT.val] at a ⊢; rw [a]
  | .fileName _ c, h => by
    simp only [MT.prepare]
    have r := MT.prepare_okF ctx hw L nd hL hnd c h
    exact ⟨r.ok, r.sem, rfl, r.val, rfl⟩
  | .boost _ c, h => by
    simp only [MT.prepare]
    have r := MT.prepare_okF ctx hw L nd hL hnd c h
    exact ⟨r.ok, r.sem, rfl, r.val, rfl⟩
  | .noVisit c, h => by
    simp only [MT.prepare]
    have r := MT.prepare_okF ctx hw L nd hL hnd c h
    exact ⟨r.ok, r.sem, rfl, r.val, rfl⟩
theorem MTs.prepare_okF (ctx : Ctx) (hw : ctx.WF) (L nd : Nat) (hL : L ≤ nd) (hnd : nd < ctx.live.length) :
    (ch : MTs) → MTs.OkFAll ctx L ch → PrepAllF ctx nd ch (MTs.prepare nd ch)
  | .nil, _ => ⟨trivial, fun _ => rfl, fun _ => rfl, rfl, rfl, rfl, rfl⟩
  | .cons h t, hh => by
    have r1 := MT.prepare_okF ctx hw L nd hL hnd h hh.1
    have r2 := MTs.prepare_okF ctx hw L nd hL hnd t hh.2
    simp only [MTs.prepare]
    have a := r1.sem; have b := r2.semAll; have c := r2.semAny
    have va := r1.val; have vb := r2.valAll; have vc := r2.valAny
    simp only [semF, semAllF, semAnyF] at a b c va vb vc
    refine ⟨⟨r1.ok, r2.ok⟩, fun d => by simp only [semAllF, MTs.semAll, a d, b d],
      fun d => by simp only [semAnyF, MTs.semAny, a d, c d], by simp only [MTs.stats, r1.stat, r2.stats],
      by simp only [MTs.valAll, semAllF, MTs.semAll, va, vb], by simp only [MTs.valAny, semAnyF, MTs.semAny, va, vc], ?_⟩
    simp only [MTs.lineCands, MTs.stats, lineCandsOfStats, r1.lc, r2.lcs]
    cases lcOfStat ctx nd h.stat <;> rfl
end

/-! #### eval -/
mutual
theorem MT.eval_keptF (ctx : Ctx) (doc cost L : Nat) : (t : MT) → t.OkF ctx L → KeptF ctx L t (t.eval ctx doc cost).2
  | .doc _ _ _ _, h => by simp only [MT.eval]; exact KeptF.refl ctx L _ h
  | .brute _ _, h => by simp only [MT.eval]; exact KeptF.refl ctx L _ h
  | .none, h => by simp only [MT.eval]; exact KeptF.refl ctx L _ h
  | .re w f bits fd id ev fo, h => by
    simp only [MT.eval]
    split
    · exact KeptF.refl ctx L _ h
    · split
      · exact KeptF.refl ctx L _ h
      · exact ⟨h, fun _ => rfl, rfl⟩
  | .sub s, h => by
    simp only [MT.eval]
    obtain ⟨e1, e2, e3, e4⟩ := Sub.matches_static ctx doc cost s
    refine ⟨?_, fun d => ?_, ?_⟩
    · simp only [MT.OkF, SubOk, Sub.T, e1, e2, e3, e4]; exact h
    · simp only [semF, MT.sem, subSemX, e1, e2, e3, e4]
    · simp only [MT.stat, e2, e3, e4]
  | .and k ch, h => by
    simp only [MT.eval]
    cases k with
    | some v => exact KeptF.refl ctx L _ h
    | none =>
      have r := MTs.evalAnd_keptF ctx doc cost L ch h
      exact ⟨r.ok, r.semAll, rfl⟩
  | .andLine k kin ch, h => by
    simp only [MT.eval]
    cases k with
    | some v => exact KeptF.refl ctx L _ h
    | none =>
      cases kin with
      | some v => exact keptF_andLine ctx L _ _ _ _ _ _ ⟨h.1, fun _ => rfl, fun _ => rfl, rfl⟩ h.2
      | none => exact keptF_andLine ctx L _ _ _ _ _ _ (MTs.evalAnd_keptF ctx doc cost L ch h.1) h.2
  | .or k ch, h => by
    simp only [MT.eval]
    cases k with
    | some v => exact KeptF.refl ctx L _ h
    | none =>
      have r := MTs.evalOr_keptF ctx doc cost L ch h
      exact ⟨r.ok, r.semAny, rfl⟩
  | .not k c, h => by
    simp only [MT.eval]
    cases k with
    | some v => exact KeptF.refl ctx L _ h
    | none =>
      have r := MT.eval_keptF ctx doc cost L c h
      exact ⟨r.ok, fun d => by have a := r.sem d; simp only [semF, MT.sem] at a ⊢; rw [a], rfl⟩
  | .fileName k c, h => by
    simp only [MT.eval]
    cases k with
    | some v => exact KeptF.refl ctx L _ h
    | none =>
      have r := MT.eval_keptF ctx doc cost L c h
      exact ⟨r.ok, r.sem, rfl⟩
  | .boost k c, h => by
    simp only [MT.eval]
    cases k with
    | some v => exact KeptF.refl ctx L _ h
    | none =>
      have r := MT.eval_keptF ctx doc cost L c h
      exact ⟨r.ok, r.sem, rfl⟩
  | .noVisit c, h => by
    simp only [MT.eval]
    have r := MT.eval_keptF ctx doc cost L c h
    exact ⟨r.ok, r.sem, rfl⟩
theorem MTs.evalAnd_keptF (ctx : Ctx) (doc cost L : Nat) : (ch : MTs) → MTs.OkFAll ctx L ch →
    KeptAllF ctx L ch (MTs.evalAnd ctx doc cost ch).2
  | .nil, _ => by simp only [MTs.evalAnd]; exact ⟨trivial, fun _ => rfl, fun _ => rfl, rfl⟩
  | .cons h t, hh => by
    have r1 := MT.eval_keptF ctx doc cost L h hh.1
    have r2 := MTs.evalAnd_keptF ctx doc cost L t hh.2
    simp only [MTs.evalAnd]
    generalize h.eval ctx doc cost = rv at r1
    generalize MTs.evalAnd ctx doc cost t = rtv at r2
    obtain ⟨sh, h'⟩ := rv
    obtain ⟨stl, t'⟩ := rtv
    cases sh <;> simp only []
    · exact keptAllF_cons ctx L _ _ _ _ r1 r2
    · exact keptAllF_cons ctx L _ _ _ _ r1 r2
    · exact keptAllF_cons ctx L _ _ _ _ r1 ⟨hh.2, fun _ => rfl, fun _ => rfl, rfl⟩
theorem MTs.evalOr_keptF (ctx : Ctx) (doc cost L : Nat) : (ch : MTs) → MTs.OkFAll ctx L ch →
    KeptAllF ctx L ch (MTs.evalOr ctx doc cost ch).2
  | .nil, _ => by simp only [MTs.evalOr]; exact ⟨trivial, fun _ => rfl, fun _ => rfl, rfl⟩
  | .cons h t, hh => by
    simp only [MTs.evalOr]
    exact keptAllF_cons ctx L _ _ _ _ (MT.eval_keptF ctx doc cost L h hh.1) (MTs.evalOr_keptF ctx doc cost L t hh.2)
end

theorem evalCosts_keptF (ctx : Ctx) (doc L : Nat) : ∀ (n cost : Nat) (t : MT) (acc : List St), t.OkF ctx L →
    KeptF ctx L t (evalCosts ctx doc n cost t acc).2.2 := by
  intro n
  induction n with
  | zero => intro cost t acc h; simp only [evalCosts]; exact KeptF.refl ctx L t h
  | succ n ih =>
    intro cost t acc h
    have r := MT.eval_keptF ctx doc cost L t h
    rw [evalCosts]
    generalize t.eval ctx doc cost = rv at r
    obtain ⟨st, t'⟩ := rv
    have step : ∀ acc', KeptF ctx L t (evalCosts ctx doc n (cost + 1) t' acc').2.2 := by
      intro acc'
      have r2 := ih (cost + 1) t' acc' r.ok
      exact ⟨r2.ok, fun d => by rw [r2.sem d, r.sem d], by rw [r2.stat, r.stat]⟩
    cases st with
    | none => exact r
    | higher =>
      simp only []
      split
      · exact r
      · exact step _
    | found => exact step _


/-! #### prune -/

def PruneF (ctx : Ctx) (L : Nat) (t : MT) : Option MT → Prop
  | Option.none => ∀ d, semF ctx d t = false
  | some t' => t'.OkF ctx L ∧ (∀ d, semF ctx d t' = semF ctx d t) ∧ (t.stat.isSome = true → t' = t)

def PruneAndF (ctx : Ctx) (L : Nat) (ch : MTs) : Option MTs → Prop
  | Option.none => ∀ d, semAllF ctx d ch = false
  | some ch' => MTs.OkFAll ctx L ch' ∧ (∀ d, semAllF ctx d ch' = semAllF ctx d ch) ∧ (MTs.AllSub ch → ch' = ch)

theorem pruneF_map (ctx : Ctx) (L : Nat) (c t : MT) (f : MT → MT) (o : Option MT) (h : PruneF ctx L c o)
    (hstat : t.stat = Option.none)
    (h1 : ∀ d, semF ctx d t = semF ctx d c)
    (h2 : ∀ c' d, semF ctx d (f c') = semF ctx d c')
    (h3 : ∀ c', c'.OkF ctx L → (f c').OkF ctx L) : PruneF ctx L t (o.map f) := by
  cases o with
  | none => intro d; rw [h1]; exact h d
  | some c' =>
    exact ⟨h3 c' h.1, fun d => by rw [h2, h1]; exact h.2.1 d, fun hs => by rw [hstat] at hs; simp at hs⟩

mutual
theorem MT.prune_F (ctx : Ctx) (L : Nat) : (t : MT) → t.OkF ctx L → PruneF ctx L t t.prune
  | .doc _ _ _ _, h => by simp only [MT.prune]; exact ⟨h, fun _ => rfl, fun _ => rfl⟩
  | .brute _ _, h => by simp only [MT.prune]; exact ⟨h, fun _ => rfl, fun _ => rfl⟩
  | .none, h => by simp only [MT.prune]; exact ⟨h, fun _ => rfl, fun _ => rfl⟩
  | .re _ _ _ _ _ _ _, h => by simp only [MT.prune]; exact ⟨h, fun _ => rfl, fun _ => rfl⟩
  | .sub s, h => by
    simp only [MT.prune]
    by_cases hn : s.it.isNone = true
    · simp only [hn, if_true]
      intro d
      simp [semF, MT.sem, subSemX, hn]
    · simp only [hn]
      exact ⟨h, fun _ => rfl, fun _ => rfl⟩
  | .and k ch, h => by
    simp only [MT.prune]
    have r := MTs.pruneAnd_F ctx L ch h
    cases hp : MTs.pruneAnd ch with
    | none => rw [hp] at r; intro d; simp only [semF, MT.sem]; exact r d
    | some ch' =>
      rw [hp] at r
      exact ⟨r.1, fun d => by simp only [semF, MT.sem]; exact r.2.1 d, fun hs => by simp [MT.stat] at hs⟩
  | .andLine k kin ch, h => by
    simp only [MT.prune]
    have r := MTs.pruneAnd_F ctx L ch h.1
    cases hp : MTs.pruneAnd ch with
    | none =>
      rw [hp] at r
      intro d
      have := r d
      simp only [semAllF] at this
      simp only [semF, MT.sem, this, Bool.false_and]
    | some ch' =>
      rw [hp] at r
      have e : ch' = ch := r.2.2 h.2
      subst e
      exact ⟨h, fun _ => rfl, fun hs => by simp [MT.stat] at hs⟩
  | .or k ch, h => by
    simp only [MT.prune]
    have r := MTs.pruneOr_F ctx L ch h
    generalize MTs.pruneOr ch = p at r
    match p with
    | .nil =>
      intro d
      have := r.2 d
      simp only [semAnyF, MTs.semAny] at this
      simp only [semF, MT.sem]; rw [← this]
    | .cons x .nil =>
      refine ⟨r.1.1, fun d => ?_, fun hs => by simp [MT.stat] at hs⟩
      have := r.2 d
      simp only [semAnyF, MTs.semAny, Bool.or_false] at this
      simp only [semF, MT.sem]; exact this
    | .cons x (.cons y z) =>
      exact ⟨r.1, fun d => by simp only [semF, MT.sem]; exact r.2 d, fun hs => by simp [MT.stat] at hs⟩
  | .not k c, h => by
    simp only [MT.prune]
    have r := MT.prune_F ctx L c h
    cases hp : c.prune with
    | none =>
      rw [hp] at r
      refine ⟨by simp [MT.OkF], fun d => ?_, fun hs => by simp [MT.stat] at hs⟩
      have := r d
      simp only [semF] at this
      simp only [semF, MT.sem, this]; rfl
    | some c' =>
      rw [hp] at r
      refine ⟨r.1, fun d => ?_, fun hs => by simp [MT.stat] at hs⟩
      have := r.2.1 d
      simp only [semF] at this
      simp only [semF, MT.sem, this]
  | .fileName k c, h => by
    simp only [MT.prune]
    exact pruneF_map ctx L c _ (MT.fileName k) _ (MT.prune_F ctx L c h) rfl (fun _ => rfl) (fun _ _ => rfl) (fun _ hc => hc)
  | .boost k c, h => by
    simp only [MT.prune]
    exact pruneF_map ctx L c _ (MT.boost k) _ (MT.prune_F ctx L c h) rfl (fun _ => rfl) (fun _ _ => rfl) (fun _ hc => hc)
  | .noVisit c, h => by
    simp only [MT.prune]
    exact pruneF_map ctx L c _ MT.noVisit _ (MT.prune_F ctx L c h) rfl (fun _ => rfl) (fun _ _ => rfl) (fun _ hc => hc)
theorem MTs.pruneAnd_F (ctx : Ctx) (L : Nat) : (ch : MTs) → MTs.OkFAll ctx L ch → PruneAndF ctx L ch (MTs.pruneAnd ch)
  | .nil, _ => by simp only [MTs.pruneAnd]; exact ⟨trivial, fun _ => rfl, fun _ => rfl⟩
  | .cons h t, hh => by
    simp only [MTs.pruneAnd]
    have rh := MT.prune_F ctx L h hh.1
    have rt := MTs.pruneAnd_F ctx L t hh.2
    cases hp : h.prune with
    | none =>
      rw [hp] at rh
      intro d
      have := rh d
      simp only [semF] at this
      simp only [semAllF, MTs.semAll, this, Bool.false_and]
    | some h' =>
      rw [hp] at rh
      cases hq : MTs.pruneAnd t with
      | none =>
        rw [hq] at rt
        intro d
        have := rt d
        simp only [semAllF] at this
        simp only [semAllF, MTs.semAll, this, Bool.and_false]
      | some t' =>
        rw [hq] at rt
        simp only [Option.map]
        refine ⟨⟨rh.1, rt.1⟩, fun d => ?_, fun hs => ?_⟩
        · have a := rh.2.1 d; have b := rt.2.1 d
          simp only [semF, semAllF] at a b
          simp only [semAllF, MTs.semAll, a, b]
        · cases h with
          | sub s =>
            have e1 : h' = .sub s := rh.2.2 (by simp [MT.stat])
            have e2 : t' = t := rt.2.2 hs
            rw [e1, e2]
          | _ => simp [MTs.AllSub] at hs
theorem MTs.pruneOr_F (ctx : Ctx) (L : Nat) : (ch : MTs) → MTs.OkFAll ctx L ch →
    MTs.OkFAll ctx L (MTs.pruneOr ch) ∧ ∀ d, semAnyF ctx d (MTs.pruneOr ch) = semAnyF ctx d ch
  | .nil, _ => ⟨trivial, fun _ => rfl⟩
  | .cons h t, hh => by
    simp only [MTs.pruneOr]
    have rh := MT.prune_F ctx L h hh.1
    have rt := MTs.pruneOr_F ctx L t hh.2
    cases hp : h.prune with
    | none =>
      rw [hp] at rh
      refine ⟨rt.1, fun d => ?_⟩
      have a := rh d; have b := rt.2 d
      simp only [semF, semAnyF] at a b
      simp only [semAnyF, MTs.semAny, a, b, Bool.false_or]
    | some h' =>
      rw [hp] at rh
      refine ⟨⟨rh.1, rt.1⟩, fun d => ?_⟩
      have a := rh.2.1 d; have b := rt.2 d
      simp only [semF, semAnyF] at a b
      simp only [semAnyF, MTs.semAny, a, b]
end

/-- the loop hypotheses hold for every modelled tree -/
theorem loopHyp_full (ctx : Ctx) (hw : ctx.WF) (t0 : MT) :
    LoopHyp ctx (fun d => semF ctx d t0) (fun L t => t.OkF ctx L ∧ ∀ d, semF ctx d t = semF ctx d t0) where
  next := by
    intro L t ⟨h1, h2⟩
    have k := MT.nextDoc_keptF ctx L t h1
    refine ⟨fun d hL hd => ?_, k.ok, fun d => by rw [k.sem d, h2 d]⟩
    have := MT.nextDoc_sound (subSemX ctx) (lineSemC ctx) L t (MT.okF_cur ctx hw L t h1) d hL hd
    rw [← h2 d]; exact this
  prep := by
    intro L t nd ⟨h1, h2⟩ hL hnd
    have p := MT.prepare_okF ctx hw L nd hL hnd t h1
    refine ⟨by rw [p.val, h2 nd], ?_⟩
    have k := evalCosts_keptF ctx nd (nd + 1) 4 0 (t.prepare nd) [] p.ok
    exact ⟨k.ok, fun d => by rw [k.sem d, p.sem d, h2 d]⟩

end ZoektModel.C01
