/-
C01 — L10: executable model of `wordMatchTree.matches` (index/matchtree.go), the `\bLITERAL\b` fast path, over bytes
(`Nat` < 256), and the executable statement of what it must find. Core Lean only (linked into the driver).
-/
namespace ZoektModel.C01

/-- `characterClass` (index/bits.go): `[A-Za-z0-9_]`, the word bytes of RE2's `\b` -/
def isWordByte (c : Nat) : Bool :=
  (decide (97 ≤ c) && decide (c ≤ 122)) || (decide (65 ≤ c) && decide (c ≤ 90)) ||
  (decide (48 ≤ c) && decide (c ≤ 57)) || c == 95

/-- `bytes.Index(hay, needle)`: offset of the first occurrence, `none` for -1 -/
def bytesIndex : List Nat → List Nat → Option Nat
  | [], needle => if needle.isEmpty then some 0 else none
  | h :: t, needle => if needle.isPrefixOf (h :: t) then some 0 else (bytesIndex t needle).map (· + 1)

/-- the scan loop of `wordMatchTree.matches`; fuel = bytes left + 1 (the offset grows in every round) -/
def wordLoop (data word : List Nat) : Nat → Nat → List Nat → List Nat
  | 0, _, acc => acc.reverse
  | fuel + 1, offset, acc =>
    match bytesIndex (data.drop offset) word with
    | none => acc.reverse
    | some idx =>
      let s := offset + idx
      let e := s + word.length
      let startB := decide (s < data.length) && (s == 0 || !isWordByte (data.getD (s - 1) 0))
      let endB := decide (e > 0) && (e == data.length || !isWordByte (data.getD e 0))
      if startB && endB then wordLoop data word fuel (offset + idx + word.length) (s :: acc)
      else wordLoop data word fuel (offset + idx + 1) acc

/-- byte offsets of the matches `wordMatchTree.matches` reports -/
def wordMatches (data word : List Nat) : List Nat := wordLoop data word (data.length + 1) 0 []

/-- `word` occurs at `p` with a non-word byte (or the text boundary) on either side -/
def wordAt (data word : List Nat) (p : Nat) : Bool :=
  word.isPrefixOf (data.drop p) &&
  (p == 0 || !isWordByte (data.getD (p - 1) 0)) &&
  (p + word.length == data.length || !isWordByte (data.getD (p + word.length) 0))

/-- the statement by scanning: some position qualifies -/
def wordSpec (data word : List Nat) : Bool := (List.range (data.length + 1)).any (wordAt data word)

/-- RE2's `\b` at position `i`: exactly one of the neighbouring bytes is a word byte -/
def isBoundary (data : List Nat) (i : Nat) : Bool :=
  (decide (0 < i) && isWordByte (data.getD (i - 1) 0)) != (decide (i < data.length) && isWordByte (data.getD i 0))

/-- `\bword\b` matches at `p` -/
def reWordAt (data word : List Nat) (p : Nat) : Bool :=
  word.isPrefixOf (data.drop p) && isBoundary data p && isBoundary data (p + word.length)

end ZoektModel.C01
