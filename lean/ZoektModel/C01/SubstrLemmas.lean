/-
C01 — composition for match trees whose leaves are case-sensitive substring atoms (backed by real trigram iterators),
document predicates and engine-decided atoms.
-/
import ZoektModel.C01.Lemmas
import ZoektModel.C01.DocIterLemmas
namespace ZoektModel.C01

def Ctx.texts (ctx : Ctx) (fileName : Bool) : List (List Nat) := if fileName then ctx.names else ctx.contents

theorem Ctx.text_eq (ctx : Ctx) (f : Bool) (d : Nat) : ctx.text f d = (ctx.texts f).getD d [] := by
  cases f <;> simp [Ctx.text, Ctx.texts]

/-- names, contents and liveness describe the same documents -/
structure Ctx.WF (ctx : Ctx) : Prop where
  hn : ctx.names.length = ctx.live.length
  hc : ctx.contents.length = ctx.live.length

theorem Ctx.texts_length (ctx : Ctx) (hw : ctx.WF) (f : Bool) : (ctx.texts f).length = ctx.live.length := by
  cases f <;> simp [Ctx.texts, hw.hn, hw.hc]

/-- the texts as the leaf's verification sees them: as they are (case-sensitive) or lower-cased rune by rune
    (case-insensitive: `caseFoldingEqualsRunes` compares the lowered pattern with `unicode.ToLower` of the text) -/
def Sub.T (ctx : Ctx) (s : Sub) : List (List Nat) :=
  if s.caseSens then ctx.texts s.fileName else (ctx.texts s.fileName).map (List.map toLowerRune)

theorem Sub.T_length (ctx : Ctx) (s : Sub) : (s.T ctx).length = (ctx.texts s.fileName).length := by
  unfold Sub.T; split <;> simp

theorem getD_map_nil (f : Nat → Nat) (l : List (List Nat)) (d : Nat) :
    (l.map (List.map f)).getD d [] = (l.getD d []).map f := by
  induction l generalizing d with
  | nil => simp
  | cons a t ih => cases d with
    | zero => simp
    | succ d => simp only [List.map_cons, List.getD_cons_succ]; exact ih d

/-- `matchContent` at an offset is a prefix test on the leaf's view of the text -/
theorem matchAt_T (ctx : Ctx) (s : Sub) (d off : Nat) :
    matchAt s.caseSens s.pat (ctx.text s.fileName d) off = s.pat.isPrefixOf (((s.T ctx).getD d []).drop off) := by
  unfold Sub.T matchAt
  cases s.caseSens with
  | true => simp only [if_true]; rw [Ctx.text_eq]
  | false =>
    simp only [Bool.false_eq_true, if_false]
    rw [getD_map_nil, List.map_drop, Ctx.text_eq]

theorem T_getD_length (ctx : Ctx) (s : Sub) (d : Nat) :
    ((s.T ctx).getD d []).length = (ctx.text s.fileName d).length := by
  unfold Sub.T
  cases s.caseSens with
  | true => simp only [if_true]; rw [Ctx.text_eq]
  | false => simp only [Bool.false_eq_true, if_false]; rw [getD_map_nil, List.length_map, Ctx.text_eq]

/-- the scan meaning of a substring atom = some occurrence in the leaf's view of the text -/
theorem occurs_iffT (ctx : Ctx) (s : Sub) (d : Nat) (hp : 0 < s.pat.length) :
    occurs s.caseSens s.pat (ctx.text s.fileName d) = true ↔ ∃ o, occAt s.pat (s.T ctx) d o := by
  simp only [occurs, List.any_eq_true, List.mem_range, matchAt_T, occAt]
  constructor
  · intro ⟨o, _, h⟩; exact ⟨o, h⟩
  · intro ⟨o, h⟩
    refine ⟨o, ?_, h⟩
    have := (List.isPrefixOf_iff_prefix.mp h).length_le
    rw [List.length_drop, T_getD_length] at this
    omega

/-- truth of a substring leaf on document `d`: the pattern occurs in the text (a leaf whose iterator is the
    `noMatchTree` — some trigram of the pattern is absent from the shard — is false) -/
def subSemX (ctx : Ctx) (s : Sub) (d : Nat) : Bool :=
  if s.it.isNone then false else occurs s.caseSens s.pat (ctx.text s.fileName d)

/-- a substring leaf (case-sensitive, or case-insensitive: then everything is stated on the lower-cased texts, and the
    iterator's posting lists are those of all case variants) in a search state where the documents below `L` are
    dealt with -/
def SubOk (ctx : Ctx) (L : Nat) (s : Sub) : Prop :=
  0 < s.pat.length ∧
  match s.it with
  | Option.none => ∀ d o, ¬ occAt s.pat (s.T ctx) d o
  | some it => ∃ i, i + 3 ≤ s.pat.length ∧ totalLen (s.T ctx) + s.pat.length < maxU32 ∧
      it.Inv (s.T ctx) s.pat i L

/-- `subSemX` is the scan meaning `occurs` for well-formed leaves -/
theorem subSemX_eq_occurs (ctx : Ctx) (L : Nat) (s : Sub) (h : SubOk ctx L s) (d : Nat) :
    subSemX ctx s d = occurs s.caseSens s.pat (ctx.text s.fileName d) := by
  obtain ⟨hp, h3⟩ := h
  unfold subSemX
  cases hit : s.it with
  | some it => simp
  | none =>
    rw [hit] at h3
    simp only [Option.isNone_none, if_true]
    cases ho : occurs s.caseSens s.pat (ctx.text s.fileName d) with
    | false => rfl
    | true =>
      obtain ⟨o, ho'⟩ := (occurs_iffT ctx s d hp).mp ho
      exact absurd ho' (h3 d o)

theorem subSemX_oob (ctx : Ctx) (hw : ctx.WF) (L : Nat) (s : Sub) (h : SubOk ctx L s) (d : Nat)
    (hd : ctx.live.length ≤ d) : subSemX ctx s d = false := by
  rw [subSemX_eq_occurs ctx L s h d]
  cases ho : occurs s.caseSens s.pat (ctx.text s.fileName d) with
  | false => rfl
  | true =>
    obtain ⟨o, ho'⟩ := (occurs_iffT ctx s d h.1).mp ho
    have hlen := Ctx.texts_length ctx hw s.fileName
    have hl := (List.isPrefixOf_iff_prefix.mp ho').length_le
    rw [List.length_drop, T_getD_length, Ctx.text_eq] at hl
    have : (ctx.texts s.fileName).getD d [] = [] := by
      rw [List.getD_eq_getElem?_getD, List.getElem?_eq_none (by omega)]; rfl
    rw [this] at hl
    have hl' : s.pat.length ≤ 0 - o := hl
    have := h.1
    omega

/-- the substring leaf satisfies what `nextDoc_sound` asks of it -/
theorem subOk_sound (ctx : Ctx) (hw : ctx.WF) (L : Nat) (s : Sub) (h : SubOk ctx L s) : SubSound (subSemX ctx) L s := by
  unfold SubSound
  cases hit : s.it with
  | none => intro d _; simp [subSemX, hit]
  | some it =>
    intro d hL hd
    by_cases hdn : d < ctx.live.length
    · have h' := h
      obtain ⟨hp, h3⟩ := h
      rw [hit] at h3
      obtain ⟨i, hi, _, hinv⟩ := h3
      have hlen := Ctx.texts_length ctx hw s.fileName
      have hno := (it.nextDoc_inv _ s.pat i L hi hinv).2 d hL hd (by rw [Sub.T_length]; omega)
      rw [subSemX_eq_occurs ctx L s h' d]
      cases ho : occurs s.caseSens s.pat (ctx.text s.fileName d) with
      | false => rfl
      | true =>
        obtain ⟨o, ho'⟩ := (occurs_iffT ctx s d hp).mp ho
        exact absurd ho' (hno o)
    · exact subSemX_oob ctx hw L s h d (by omega)

/-- `prepare` on a substring leaf: the plain value is the scan truth, and the iterator is ready for the next document -/
theorem Sub.prepare_ok (ctx : Ctx) (hw : ctx.WF) (L : Nat) (s : Sub) (h : SubOk ctx L s) (nd : Nat) (hL : L ≤ nd)
    (hnd : nd < ctx.live.length) :
    SubOk ctx (nd + 1) (s.prepare nd) ∧ (s.prepare nd).val ctx nd = subSemX ctx s nd ∧
    (∀ d, subSemX ctx (s.prepare nd) d = subSemX ctx s d) := by
  have h' := h
  obtain ⟨hp, h3⟩ := h
  have hlen := Ctx.texts_length ctx hw s.fileName
  cases hit : s.it with
  | none =>
    rw [hit] at h3
    have e : s.prepare nd = Sub.mk s.fileName s.caseSens s.pat Option.none [] false := by
      simp [Sub.prepare, hit]
    rw [e]
    refine ⟨⟨hp, h3⟩, ?_, fun d => by simp [subSemX, hit]⟩
    simp [Sub.val, Sub.verified, subSemX, hit]
  | some it =>
    rw [hit] at h3
    obtain ⟨i, hi, hsz, hinv⟩ := h3
    obtain ⟨p1, p2⟩ := DocIter.prepare_candidates _ s.pat i L it hi hsz hinv nd hL (by rw [Sub.T_length]; omega)
    have e : s.prepare nd = Sub.mk s.fileName s.caseSens s.pat (some ((it.prepare nd).candidates.2))
        ((it.prepare nd).candidates.1) false := by
      simp [Sub.prepare, hit]
    rw [e]
    refine ⟨⟨hp, ⟨i, hi, hsz, p2⟩⟩, ?_, fun d => by simp [subSemX, hit]⟩
    rw [subSemX_eq_occurs ctx L s h' nd]
    simp only [Sub.val, Sub.verified, Bool.false_eq_true, if_false]
    rw [Bool.eq_iff_iff, occurs_iffT ctx s nd hp]
    simp only [Bool.not_eq_true', List.isEmpty_eq_false_iff_exists_mem, List.mem_filter]
    constructor
    · intro ⟨o, _, ho⟩
      have := matchAt_T ctx s nd o
      rw [this] at ho
      exact ⟨o, ho⟩
    · intro ⟨o, ho⟩
      refine ⟨o, ⟨p1 o ho, ?_⟩⟩
      rw [matchAt_T ctx s nd o]; exact ho

/-! ### trees over such leaves -/

mutual
/-- a tree of the fragment (connectives over case-sensitive substring leaves, document predicates, engine-decided
    atoms), in a search state where the documents below `L` are dealt with -/
def MT.OkS (ctx : Ctx) (L : Nat) : MT → Prop
  | .doc _ _ fd id => fd = true → id < L
  | .brute fd id => fd = true → id < L
  | .none => True
  | .re _ _ _ fd id _ _ => fd = true → id < L
  | .sub s => SubOk ctx L s
  | .and _ ch => MTs.OkSAll ctx L ch
  | .or _ ch => MTs.OkSAll ctx L ch
  | .not _ c => c.OkS ctx L
  | .fileName _ c => c.OkS ctx L
  | .boost _ c => c.OkS ctx L
  | .andLine _ _ _ => False
  | .noVisit _ => False
def MTs.OkSAll (ctx : Ctx) (L : Nat) : MTs → Prop
  | .nil => True
  | .cons h t => h.OkS ctx L ∧ MTs.OkSAll ctx L t
end

abbrev semS (ctx : Ctx) (d : Nat) (t : MT) : Bool := t.sem (subSemX ctx) (fun _ _ => true) d
abbrev semAllS (ctx : Ctx) (d : Nat) (ch : MTs) : Bool := MTs.semAll (subSemX ctx) (fun _ _ => true) d ch
abbrev semAnyS (ctx : Ctx) (d : Nat) (ch : MTs) : Bool := MTs.semAny (subSemX ctx) (fun _ _ => true) d ch

mutual
theorem MT.okS_cur (ctx : Ctx) (hw : ctx.WF) (L : Nat) : (t : MT) → t.OkS ctx L → t.Cur (subSemX ctx) L
  | .doc _ _ _ _, h => h
  | .brute _ _, h => h
  | .none, _ => trivial
  | .re _ _ _ _ _ _ _, h => h
  | .sub s, h => subOk_sound ctx hw L s h
  | .and _ ch, h => MTs.okS_curAll ctx hw L ch h
  | .or _ ch, h => MTs.okS_curAll ctx hw L ch h
  | .not _ _, _ => trivial
  | .fileName _ c, h => MT.okS_cur ctx hw L c h
  | .boost _ c, h => MT.okS_cur ctx hw L c h
  | .andLine _ _ _, h => absurd h (by simp [MT.OkS])
  | .noVisit _, h => absurd h (by simp [MT.OkS])
theorem MTs.okS_curAll (ctx : Ctx) (hw : ctx.WF) (L : Nat) : (ch : MTs) → MTs.OkSAll ctx L ch →
    MTs.CurAll (subSemX ctx) L ch
  | .nil, _ => trivial
  | .cons h t, hh => ⟨MT.okS_cur ctx hw L h hh.1, MTs.okS_curAll ctx hw L t hh.2⟩
end

/-- the step keeps the tree in the fragment's state `L'` and does not change its meaning -/
structure KeptS (ctx : Ctx) (L' : Nat) (t t' : MT) : Prop where
  ok : t'.OkS ctx L'
  sem : ∀ d, semS ctx d t' = semS ctx d t

structure KeptAllS (ctx : Ctx) (L' : Nat) (ch ch' : MTs) : Prop where
  ok : MTs.OkSAll ctx L' ch'
  semAll : ∀ d, semAllS ctx d ch' = semAllS ctx d ch
  semAny : ∀ d, semAnyS ctx d ch' = semAnyS ctx d ch

theorem KeptS.refl (ctx : Ctx) (L : Nat) (t : MT) (h : t.OkS ctx L) : KeptS ctx L t t := ⟨h, fun _ => rfl⟩

theorem keptAllS_cons (ctx : Ctx) (L : Nat) (h h' : MT) (t t' : MTs) (r1 : KeptS ctx L h h')
    (r2 : KeptAllS ctx L t t') : KeptAllS ctx L (.cons h t) (.cons h' t') := by
  have a := r1.sem; have b := r2.semAll; have c := r2.semAny
  simp only [semS, semAllS, semAnyS] at a b c
  exact ⟨⟨r1.ok, r2.ok⟩, fun d => by simp only [semAllS, MTs.semAll, a d, b d],
    fun d => by simp only [semAnyS, MTs.semAny, a d, c d]⟩

theorem keptS_not (ctx : Ctx) (L : Nat) (k k' : Option Bool) (c c' : MT) (r : KeptS ctx L c c') :
    KeptS ctx L (.not k c) (.not k' c') :=
  ⟨r.ok, fun d => by have a := r.sem d; simp only [semS, MT.sem] at a ⊢; rw [a]⟩

/-! #### nextDoc -/
mutual
theorem MT.nextDoc_keptS (ctx : Ctx) (L : Nat) : (t : MT) → t.OkS ctx L → KeptS ctx L t t.nextDoc.2
  | .doc _ _ _ _, h => KeptS.refl ctx L _ h
  | .brute _ _, h => KeptS.refl ctx L _ h
  | .none, h => KeptS.refl ctx L _ h
  | .re _ _ _ _ _ _ _, h => KeptS.refl ctx L _ h
  | .sub s, h => by
    simp only [MT.nextDoc]
    cases hit : s.it with
    | none => simp only []; exact KeptS.refl ctx L _ h
    | some it =>
      simp only []
      obtain ⟨hp, h3⟩ := h
      rw [hit] at h3
      obtain ⟨i, hi, hsz, hinv⟩ := h3
      refine ⟨⟨hp, ⟨i, hi, hsz, (it.nextDoc_inv _ s.pat i L hi hinv).1⟩⟩, fun d => ?_⟩
      simp [semS, MT.sem, subSemX, hit]
  | .and k ch, h => by
    simp only [MT.nextDoc]
    have r := MTs.nextDocMax_keptS ctx L ch 0 h
    exact ⟨r.ok, r.semAll⟩
  | .or k ch, h => by
    simp only [MT.nextDoc]
    have r := MTs.nextDocMin_keptS ctx L ch maxU32 h
    exact ⟨r.ok, r.semAny⟩
  | .not k c, h => KeptS.refl ctx L _ h
  | .fileName k c, h => by
    simp only [MT.nextDoc]
    have r := MT.nextDoc_keptS ctx L c h
    exact ⟨r.ok, r.sem⟩
  | .boost k c, h => by
    simp only [MT.nextDoc]
    have r := MT.nextDoc_keptS ctx L c h
    exact ⟨r.ok, r.sem⟩
  | .andLine _ _ _, h => absurd h (by simp [MT.OkS])
  | .noVisit _, h => absurd h (by simp [MT.OkS])
theorem MTs.nextDocMax_keptS (ctx : Ctx) (L : Nat) : (ch : MTs) → (acc : Nat) → MTs.OkSAll ctx L ch →
    KeptAllS ctx L ch (MTs.nextDocMax ch acc).2
  | .nil, _, _ => ⟨trivial, fun _ => rfl, fun _ => rfl⟩
  | .cons h t, acc, hh => by
    simp only [MTs.nextDocMax]
    exact keptAllS_cons ctx L _ _ _ _ (MT.nextDoc_keptS ctx L h hh.1) (MTs.nextDocMax_keptS ctx L t _ hh.2)
theorem MTs.nextDocMin_keptS (ctx : Ctx) (L : Nat) : (ch : MTs) → (acc : Nat) → MTs.OkSAll ctx L ch →
    KeptAllS ctx L ch (MTs.nextDocMin ch acc).2
  | .nil, _, _ => ⟨trivial, fun _ => rfl, fun _ => rfl⟩
  | .cons h t, acc, hh => by
    simp only [MTs.nextDocMin]
    exact keptAllS_cons ctx L _ _ _ _ (MT.nextDoc_keptS ctx L h hh.1) (MTs.nextDocMin_keptS ctx L t _ hh.2)
end


/-! #### prepare -/

structure PrepS (ctx : Ctx) (nd : Nat) (t t' : MT) : Prop where
  ok : t'.OkS ctx (nd + 1)
  sem : ∀ d, semS ctx d t' = semS ctx d t
  val : t'.val ctx nd = semS ctx nd t

structure PrepAllS (ctx : Ctx) (nd : Nat) (ch ch' : MTs) : Prop where
  ok : MTs.OkSAll ctx (nd + 1) ch'
  semAll : ∀ d, semAllS ctx d ch' = semAllS ctx d ch
  semAny : ∀ d, semAnyS ctx d ch' = semAnyS ctx d ch
  valAll : MTs.valAll ctx nd ch' = semAllS ctx nd ch
  valAny : MTs.valAny ctx nd ch' = semAnyS ctx nd ch

mutual
theorem MT.prepare_okS (ctx : Ctx) (hw : ctx.WF) (L nd : Nat) (hL : L ≤ nd) (hnd : nd < ctx.live.length) :
    (t : MT) → t.OkS ctx L → PrepS ctx nd t (t.prepare nd)
  | .doc _ _ _ _, _ => by simp only [MT.prepare]; exact ⟨by simp [MT.OkS], fun _ => rfl, rfl⟩
  | .brute _ _, _ => by simp only [MT.prepare]; exact ⟨by simp [MT.OkS], fun _ => rfl, rfl⟩
  | .none, _ => by simp only [MT.prepare]; exact ⟨trivial, fun _ => rfl, rfl⟩
  | .re _ _ _ _ _ _ _, _ => by simp only [MT.prepare]; exact ⟨by simp [MT.OkS], fun _ => rfl, rfl⟩
  | .sub s, h => by
    simp only [MT.prepare]
    obtain ⟨a, b, c⟩ := Sub.prepare_ok ctx hw L s h nd hL hnd
    exact ⟨a, fun d => by simp only [semS, MT.sem]; exact c d, by simp only [MT.val, semS, MT.sem]; exact b⟩
  | .and _ ch, h => by
    simp only [MT.prepare]
    have r := MTs.prepare_okS ctx hw L nd hL hnd ch h
    exact ⟨r.ok, r.semAll, r.valAll⟩
  | .or _ ch, h => by
    simp only [MT.prepare]
    have r := MTs.prepare_okS ctx hw L nd hL hnd ch h
    exact ⟨r.ok, r.semAny, r.valAny⟩
  | .not _ c, h => by
    simp only [MT.prepare]
    have r := MT.prepare_okS ctx hw L nd hL hnd c h
    refine ⟨r.ok, fun d => ?_, ?_⟩
    · have a := r.sem d; simp only [semS, MT.sem] at a ⊢; rw [a]
    · have a := r.val; simp only [semS, MT.sem, MT.val] at a ⊢; rw [a]
  | .fileName _ c, h => by
    simp only [MT.prepare]
    have r := MT.prepare_okS ctx hw L nd hL hnd c h
    exact ⟨r.ok, r.sem, r.val⟩
  | .boost _ c, h => by
    simp only [MT.prepare]
    have r := MT.prepare_okS ctx hw L nd hL hnd c h
    exact ⟨r.ok, r.sem, r.val⟩
  | .andLine _ _ _, h => absurd h (by simp [MT.OkS])
  | .noVisit _, h => absurd h (by simp [MT.OkS])
theorem MTs.prepare_okS (ctx : Ctx) (hw : ctx.WF) (L nd : Nat) (hL : L ≤ nd) (hnd : nd < ctx.live.length) :
    (ch : MTs) → MTs.OkSAll ctx L ch → PrepAllS ctx nd ch (MTs.prepare nd ch)
  | .nil, _ => ⟨trivial, fun _ => rfl, fun _ => rfl, rfl, rfl⟩
  | .cons h t, hh => by
    have r1 := MT.prepare_okS ctx hw L nd hL hnd h hh.1
    have r2 := MTs.prepare_okS ctx hw L nd hL hnd t hh.2
    simp only [MTs.prepare]
    have a := r1.sem; have b := r2.semAll; have c := r2.semAny
    have va := r1.val; have vb := r2.valAll; have vc := r2.valAny
    simp only [semS, semAllS, semAnyS] at a b c va vb vc
    exact ⟨⟨r1.ok, r2.ok⟩, fun d => by simp only [semAllS, MTs.semAll, a d, b d],
      fun d => by simp only [semAnyS, MTs.semAny, a d, c d],
      by simp only [MTs.valAll, semAllS, MTs.semAll, va, vb], by simp only [MTs.valAny, semAnyS, MTs.semAny, va, vc]⟩
end

/-! #### eval -/

theorem Sub.matches_static (ctx : Ctx) (doc cost : Nat) (s : Sub) :
    (s.matches ctx doc cost).2.it = s.it ∧ (s.matches ctx doc cost).2.pat = s.pat ∧
    (s.matches ctx doc cost).2.fileName = s.fileName ∧ (s.matches ctx doc cost).2.caseSens = s.caseSens := by
  unfold Sub.matches
  split
  · exact ⟨rfl, rfl, rfl, rfl⟩
  · split
    · exact ⟨rfl, rfl, rfl, rfl⟩
    · split
      · exact ⟨rfl, rfl, rfl, rfl⟩
      · split
        · exact ⟨rfl, rfl, rfl, rfl⟩
        · exact ⟨rfl, rfl, rfl, rfl⟩

mutual
theorem MT.eval_keptS (ctx : Ctx) (doc cost L : Nat) : (t : MT) → t.OkS ctx L → KeptS ctx L t (t.eval ctx doc cost).2
  | .doc _ _ _ _, h => by simp only [MT.eval]; exact KeptS.refl ctx L _ h
  | .brute _ _, h => by simp only [MT.eval]; exact KeptS.refl ctx L _ h
  | .none, h => by simp only [MT.eval]; exact KeptS.refl ctx L _ h
  | .re w f bits fd id ev fo, h => by
    simp only [MT.eval]
    split
    · exact KeptS.refl ctx L _ h
    · split
      · exact KeptS.refl ctx L _ h
      · exact ⟨h, fun _ => rfl⟩
  | .sub s, h => by
    simp only [MT.eval]
    obtain ⟨e1, e2, e3, e4⟩ := Sub.matches_static ctx doc cost s
    refine ⟨?_, fun d => ?_⟩
    · simp only [MT.OkS, SubOk, Sub.T, e1, e2, e3, e4]; exact h
    · simp only [semS, MT.sem, subSemX, e1, e2, e3, e4]
  | .and k ch, h => by
    simp only [MT.eval]
    cases k with
    | some v => exact KeptS.refl ctx L _ h
    | none =>
      have r := MTs.evalAnd_keptS ctx doc cost L ch h
      exact ⟨r.ok, r.semAll⟩
  | .or k ch, h => by
    simp only [MT.eval]
    cases k with
    | some v => exact KeptS.refl ctx L _ h
    | none =>
      have r := MTs.evalOr_keptS ctx doc cost L ch h
      exact ⟨r.ok, r.semAny⟩
  | .not k c, h => by
    simp only [MT.eval]
    cases k with
    | some v => exact KeptS.refl ctx L _ h
    | none => exact keptS_not ctx L _ _ _ _ (MT.eval_keptS ctx doc cost L c h)
  | .fileName k c, h => by
    simp only [MT.eval]
    cases k with
    | some v => exact KeptS.refl ctx L _ h
    | none =>
      have r := MT.eval_keptS ctx doc cost L c h
      exact ⟨r.ok, r.sem⟩
  | .boost k c, h => by
    simp only [MT.eval]
    cases k with
    | some v => exact KeptS.refl ctx L _ h
    | none =>
      have r := MT.eval_keptS ctx doc cost L c h
      exact ⟨r.ok, r.sem⟩
  | .andLine _ _ _, h => absurd h (by simp [MT.OkS])
  | .noVisit _, h => absurd h (by simp [MT.OkS])
theorem MTs.evalAnd_keptS (ctx : Ctx) (doc cost L : Nat) : (ch : MTs) → MTs.OkSAll ctx L ch →
    KeptAllS ctx L ch (MTs.evalAnd ctx doc cost ch).2
  | .nil, _ => by simp only [MTs.evalAnd]; exact ⟨trivial, fun _ => rfl, fun _ => rfl⟩
  | .cons h t, hh => by
    have r1 := MT.eval_keptS ctx doc cost L h hh.1
    have r2 := MTs.evalAnd_keptS ctx doc cost L t hh.2
    simp only [MTs.evalAnd]
    generalize h.eval ctx doc cost = rv at r1
    generalize MTs.evalAnd ctx doc cost t = rtv at r2
    obtain ⟨sh, h'⟩ := rv
    obtain ⟨stl, t'⟩ := rtv
    cases sh <;> simp only []
    · exact keptAllS_cons ctx L _ _ _ _ r1 r2
    · exact keptAllS_cons ctx L _ _ _ _ r1 r2
    · exact keptAllS_cons ctx L _ _ _ _ r1 ⟨hh.2, fun _ => rfl, fun _ => rfl⟩
theorem MTs.evalOr_keptS (ctx : Ctx) (doc cost L : Nat) : (ch : MTs) → MTs.OkSAll ctx L ch →
    KeptAllS ctx L ch (MTs.evalOr ctx doc cost ch).2
  | .nil, _ => by simp only [MTs.evalOr]; exact ⟨trivial, fun _ => rfl, fun _ => rfl⟩
  | .cons h t, hh => by
    simp only [MTs.evalOr]
    exact keptAllS_cons ctx L _ _ _ _ (MT.eval_keptS ctx doc cost L h hh.1) (MTs.evalOr_keptS ctx doc cost L t hh.2)
end

theorem evalCosts_keptS (ctx : Ctx) (doc L : Nat) : ∀ (n cost : Nat) (t : MT) (acc : List St), t.OkS ctx L →
    KeptS ctx L t (evalCosts ctx doc n cost t acc).2.2 := by
  intro n
  induction n with
  | zero => intro cost t acc h; simp only [evalCosts]; exact KeptS.refl ctx L t h
  | succ n ih =>
    intro cost t acc h
    have r := MT.eval_keptS ctx doc cost L t h
    rw [evalCosts]
    generalize t.eval ctx doc cost = rv at r
    obtain ⟨st, t'⟩ := rv
    have step : ∀ acc', KeptS ctx L t (evalCosts ctx doc n (cost + 1) t' acc').2.2 := by
      intro acc'
      have r2 := ih (cost + 1) t' acc' r.ok
      exact ⟨r2.ok, fun d => by rw [r2.sem d, r.sem d]⟩
    cases st with
    | none => exact r
    | higher =>
      simp only []
      split
      · exact r
      · exact step _
    | found => exact step _


/-! #### prune, the bridge to the scan meaning, and the loop hypotheses -/

mutual
theorem MT.prune_okS (ctx : Ctx) (L : Nat) : (t : MT) → t.OkS ctx L → ∀ t', t.prune = some t' → t'.OkS ctx L
  | .doc _ _ _ _, h, t', e => by simp only [MT.prune, Option.some.injEq] at e; subst e; exact h
  | .brute _ _, h, t', e => by simp only [MT.prune, Option.some.injEq] at e; subst e; exact h
  | .none, h, t', e => by simp only [MT.prune, Option.some.injEq] at e; subst e; exact h
  | .re _ _ _ _ _ _ _, h, t', e => by simp only [MT.prune, Option.some.injEq] at e; subst e; exact h
  | .sub s, h, t', e => by
    simp only [MT.prune] at e
    split at e
    · simp at e
    · simp only [Option.some.injEq] at e; subst e; exact h
  | .and k ch, h, t', e => by
    simp only [MT.prune] at e
    cases hp : MTs.pruneAnd ch with
    | none => simp [hp] at e
    | some ch' =>
      simp only [hp, Option.map, Option.some.injEq] at e; subst e
      exact MTs.pruneAnd_okS ctx L ch h ch' hp
  | .or k ch, h, t', e => by
    simp only [MT.prune] at e
    have r := MTs.pruneOr_okS ctx L ch h
    generalize MTs.pruneOr ch = p at r e
    match p with
    | .nil => simp at e
    | .cons x .nil => simp only [Option.some.injEq] at e; subst e; exact r.1
    | .cons x (.cons y z) => simp only [Option.some.injEq] at e; subst e; exact r
  | .not k c, h, t', e => by
    simp only [MT.prune] at e
    cases hp : c.prune with
    | none => simp only [hp, Option.some.injEq] at e; subst e; simp [MT.OkS]
    | some c' =>
      simp only [hp, Option.some.injEq] at e; subst e
      exact MT.prune_okS ctx L c h c' hp
  | .fileName k c, h, t', e => by
    simp only [MT.prune] at e
    cases hp : c.prune with
    | none => simp [hp] at e
    | some c' => simp only [hp, Option.map, Option.some.injEq] at e; subst e; exact MT.prune_okS ctx L c h c' hp
  | .boost k c, h, t', e => by
    simp only [MT.prune] at e
    cases hp : c.prune with
    | none => simp [hp] at e
    | some c' => simp only [hp, Option.map, Option.some.injEq] at e; subst e; exact MT.prune_okS ctx L c h c' hp
  | .andLine _ _ _, h, _, _ => absurd h (by simp [MT.OkS])
  | .noVisit _, h, _, _ => absurd h (by simp [MT.OkS])
theorem MTs.pruneAnd_okS (ctx : Ctx) (L : Nat) : (ch : MTs) → MTs.OkSAll ctx L ch → ∀ ch', MTs.pruneAnd ch = some ch' →
    MTs.OkSAll ctx L ch'
  | .nil, _, ch', e => by simp only [MTs.pruneAnd, Option.some.injEq] at e; subst e; trivial
  | .cons h t, hh, ch', e => by
    simp only [MTs.pruneAnd] at e
    cases hp : h.prune with
    | none => simp [hp] at e
    | some h' =>
      cases hq : MTs.pruneAnd t with
      | none => simp [hp, hq] at e
      | some t' =>
        simp only [hp, hq, Option.map, Option.some.injEq] at e; subst e
        exact ⟨MT.prune_okS ctx L h hh.1 h' hp, MTs.pruneAnd_okS ctx L t hh.2 t' hq⟩
theorem MTs.pruneOr_okS (ctx : Ctx) (L : Nat) : (ch : MTs) → MTs.OkSAll ctx L ch → MTs.OkSAll ctx L (MTs.pruneOr ch)
  | .nil, _ => trivial
  | .cons h t, hh => by
    simp only [MTs.pruneOr]
    cases hp : h.prune with
    | none => exact MTs.pruneOr_okS ctx L t hh.2
    | some h' => exact ⟨MT.prune_okS ctx L h hh.1 h' hp, MTs.pruneOr_okS ctx L t hh.2⟩
end

mutual
/-- **bridge**: on the fragment, the engine-side meaning is the scan meaning `MT.ref` of Spec.lean -/
theorem MT.ref_eq_semS (ctx : Ctx) (L : Nat) (d : Nat) : (t : MT) → t.OkS ctx L → t.ref ctx d = semS ctx d t
  | .doc _ _ _ _, _ => rfl
  | .brute _ _, _ => rfl
  | .none, _ => rfl
  | .re _ _ _ _ _ _ _, _ => rfl
  | .sub s, h => by simp only [MT.ref, semS, MT.sem]; exact (subSemX_eq_occurs ctx L s h d).symm
  | .and _ ch, h => by simp only [MT.ref, semS, MT.sem]; exact MTs.refAll_eq_semS ctx L d ch h
  | .or _ ch, h => by simp only [MT.ref, semS, MT.sem]; exact MTs.refAny_eq_semS ctx L d ch h
  | .not _ c, h => by simp only [MT.ref, semS, MT.sem]; rw [MT.ref_eq_semS ctx L d c h]
  | .fileName _ c, h => by simp only [MT.ref, semS, MT.sem]; exact MT.ref_eq_semS ctx L d c h
  | .boost _ c, h => by simp only [MT.ref, semS, MT.sem]; exact MT.ref_eq_semS ctx L d c h
  | .andLine _ _ _, h => absurd h (by simp [MT.OkS])
  | .noVisit _, h => absurd h (by simp [MT.OkS])
theorem MTs.refAll_eq_semS (ctx : Ctx) (L : Nat) (d : Nat) : (ch : MTs) → MTs.OkSAll ctx L ch →
    MTs.refAll ctx d ch = semAllS ctx d ch
  | .nil, _ => rfl
  | .cons h t, hh => by
    simp only [MTs.refAll, semAllS, MTs.semAll]
    have a := MT.ref_eq_semS ctx L d h hh.1
    have b := MTs.refAll_eq_semS ctx L d t hh.2
    simp only [semS, semAllS] at a b
    rw [a, b]
theorem MTs.refAny_eq_semS (ctx : Ctx) (L : Nat) (d : Nat) : (ch : MTs) → MTs.OkSAll ctx L ch →
    MTs.refAny ctx d ch = semAnyS ctx d ch
  | .nil, _ => rfl
  | .cons h t, hh => by
    simp only [MTs.refAny, semAnyS, MTs.semAny]
    have a := MT.ref_eq_semS ctx L d h hh.1
    have b := MTs.refAny_eq_semS ctx L d t hh.2
    simp only [semS, semAnyS] at a b
    rw [a, b]
end

/-- the loop hypotheses hold on the fragment -/
theorem loopHyp_substr (ctx : Ctx) (hw : ctx.WF) (t0 : MT) :
    LoopHyp ctx (fun d => semS ctx d t0) (fun L t => t.OkS ctx L ∧ ∀ d, semS ctx d t = semS ctx d t0) where
  next := by
    intro L t ⟨h1, h2⟩
    have k := MT.nextDoc_keptS ctx L t h1
    refine ⟨fun d hL hd => ?_, k.ok, fun d => by rw [k.sem d, h2 d]⟩
    have := MT.nextDoc_sound (subSemX ctx) (fun _ _ => true) L t (MT.okS_cur ctx hw L t h1) d hL hd
    rw [← h2 d]; exact this
  prep := by
    intro L t nd ⟨h1, h2⟩ hL hnd
    have p := MT.prepare_okS ctx hw L nd hL hnd t h1
    refine ⟨by rw [p.val, h2 nd], ?_⟩
    have k := evalCosts_keptS ctx nd (nd + 1) 4 0 (t.prepare nd) [] p.ok
    exact ⟨k.ok, fun d => by rw [k.sem d, p.sem d, h2 d]⟩

/-- a fresh case-sensitive substring leaf as `newSubstringMatchTree` / `iterateNgrams` build it, for any selected
    trigram positions `i ≤ j` -/
def mkSub (ctx : Ctx) (fileName : Bool) (pat : List Nat) (i j : Nat) : Sub :=
  ⟨fileName, true, pat, some (mkIter (ctx.texts fileName) pat i j), [], false⟩

theorem mkSub_ok (ctx : Ctx) (fileName : Bool) (pat : List Nat) (i j : Nat) (hij : i ≤ j) (hj : j + 3 ≤ pat.length)
    (hsz : totalLen (ctx.texts fileName) + pat.length < maxU32) : SubOk ctx 0 (mkSub ctx fileName pat i j) :=
  ⟨by simp only [mkSub]; omega, ⟨i, by simp only [mkSub]; omega, hsz, mkIter_inv _ pat i j hij hj hsz⟩⟩


/-! ### case-insensitive leaves: posting lists of all case variants -/

theorem endsFrom_map (f : Nat → Nat) (texts : List (List Nat)) : ∀ b,
    endsFrom b (texts.map (List.map f)) = endsFrom b texts := by
  induction texts with
  | nil => intro b; rfl
  | cons t ts ih => intro b; simp only [List.map_cons, endsFrom, List.length_map, ih]

theorem totalLen_map (f : Nat → Nat) (texts : List (List Nat)) : totalLen (texts.map (List.map f)) = totalLen texts := by
  induction texts with
  | nil => rfl
  | cons t ts ih => simp only [totalLen, List.map_cons, List.sum_cons, List.length_map] at ih ⊢; rw [ih]

/-- a posting of `g` in the lower-cased texts is a posting, in the original texts, of a trigram that lower-cases to `g` -/
theorem mem_postFrom_map (f : Nat → Nat) (g : List Nat) (texts : List (List Nat)) : ∀ b x,
    x ∈ postFrom g b (texts.map (List.map f)) →
    ∃ g', g'.map f = g ∧ x ∈ postFrom g' b texts := by
  induction texts with
  | nil => intro b x h; simp [postFrom] at h
  | cons t ts ih =>
    intro b x h
    simp only [List.map_cons, postFrom, List.mem_append, List.length_map] at h
    rcases h with h | h
    · simp only [docPost, List.mem_map, List.mem_filter, List.mem_range, List.length_map] at h
      obtain ⟨o, ⟨ho, hg⟩, e⟩ := h
      have hpre : g <+: (t.map f).drop o := List.isPrefixOf_iff_prefix.mp hg
      have hlen := hpre.length_le
      rw [List.length_drop, List.length_map] at hlen
      refine ⟨(t.drop o).take g.length, ?_, ?_⟩
      · rw [List.map_take, List.map_drop]
        exact (List.prefix_iff_eq_take.mp hpre).symm
      · simp only [postFrom, List.mem_append]
        left
        simp only [docPost, List.mem_map, List.mem_filter, List.mem_range]
        exact ⟨o, ⟨ho, List.isPrefixOf_iff_prefix.mpr (List.take_prefix _ _)⟩, e⟩
    · obtain ⟨g', e1, e2⟩ := ih _ x h
      exact ⟨g', e1, by simp only [postFrom, List.mem_append]; right; exact e2⟩

/-- the merged iterator over the posting lists of the given trigram variants -/
def variantPostings (vars : List (List Nat)) (texts : List (List Nat)) : Basic := vars.map (fun g => post g texts)

theorem variantPostings_sorted (vars : List (List Nat)) (texts : List (List Nat)) :
    (variantPostings vars texts).Sorted := by
  intro l hl
  simp only [variantPostings, List.mem_map] at hl
  obtain ⟨g, _, e⟩ := hl; subst e
  exact postFrom_sorted g texts 0

theorem variantPostings_bounded (vars : List (List Nat)) (texts : List (List Nat)) (h : totalLen texts < maxU32) :
    (variantPostings vars texts).Bounded := by
  intro p ⟨l, hl, hp⟩
  simp only [variantPostings, List.mem_map] at hl
  obtain ⟨g, _, e⟩ := hl; subst e
  have := postFrom_range g texts 0 p hp
  omega

/-- if the variant list contains every trigram that lower-cases to `g` (what `generateCaseNgrams` yields on runes whose
    lower-casing and simple folding agree), the merged iterator covers every posting of `g` in the lower-cased texts -/
theorem variantPostings_cover (vars : List (List Nat)) (texts : List (List Nat)) (g : List Nat)
    (hv : ∀ g', g'.map toLowerRune = g → g' ∈ vars) (q : Nat)
    (hq : q ∈ post g (texts.map (List.map toLowerRune))) : (variantPostings vars texts).mem q := by
  obtain ⟨g', e1, e2⟩ := mem_postFrom_map toLowerRune g texts 0 q hq
  exact ⟨post g' texts, List.mem_map.mpr ⟨g', hv g' e1, rfl⟩, e2⟩

/-- a fresh case-insensitive substring leaf: lowered pattern `patL`, trigram positions `i ≤ j`, iterators merging the
    posting lists of the case variants `vars1`, `vars2` of the two selected trigrams -/
def mkSubCI (ctx : Ctx) (fileName : Bool) (patL : List Nat) (i j : Nat) (vars1 vars2 : List (List Nat)) : Sub :=
  ⟨fileName, false, patL,
   some { leftPad := i, rightPad := patL.length - i,
          iter := if i = j then .basic (variantPostings vars1 (ctx.texts fileName))
                  else .dist ⟨variantPostings vars1 (ctx.texts fileName), variantPostings vars2 (ctx.texts fileName), j - i, false⟩,
          ends := endsOf (ctx.texts fileName), fileIdx := 0 },
   [], false⟩

theorem mkSubCI_ok (ctx : Ctx) (fileName : Bool) (patL : List Nat) (i j : Nat) (vars1 vars2 : List (List Nat))
    (hij : i ≤ j) (hj : j + 3 ≤ patL.length) (hsz : totalLen (ctx.texts fileName) + patL.length < maxU32)
    (hv1 : ∀ g', g'.map toLowerRune = tri patL i → g' ∈ vars1)
    (hv2 : ∀ g', g'.map toLowerRune = tri patL j → g' ∈ vars2) :
    SubOk ctx 0 (mkSubCI ctx fileName patL i j vars1 vars2) := by
  have hT : (mkSubCI ctx fileName patL i j vars1 vars2).T ctx = (ctx.texts fileName).map (List.map toLowerRune) := by
    simp [Sub.T, mkSubCI]
  refine ⟨by simp only [mkSubCI]; omega, ?_⟩
  show ∃ i', i' + 3 ≤ patL.length ∧ _ ∧ DocIter.Inv _ patL i' 0 _
  rw [hT]
  refine ⟨i, by omega, by rw [totalLen_map]; exact hsz, ⟨rfl, rfl, ?_, ?_, ?_, fun d _ hd => by simp at hd⟩⟩
  · simp only [endsOf, endsFrom_map]
  · by_cases he : i = j
    · simp only [he, if_true]
      exact ⟨variantPostings_sorted _ _, variantPostings_bounded _ _ (by omega)⟩
    · simp only [he, if_false]
      exact ⟨⟨variantPostings_sorted _ _, variantPostings_sorted _ _, variantPostings_bounded _ _ (by omega),
        variantPostings_bounded _ _ (by omega)⟩, fun h => by simp at h⟩
  · intro d o _ hd hocc
    have h1 := post_complete _ patL d o i hd hocc (by omega)
    have h2 := post_complete _ patL d o j hd hocc hj
    by_cases he : i = j
    · simp only [he, if_true]
      subst he
      exact variantPostings_cover vars1 _ _ hv1 _ h1
    · simp only [he, if_false]
      refine ⟨variantPostings_cover vars1 _ _ hv1 _ h1, ?_⟩
      have e : baseOf ((ctx.texts fileName).map (List.map toLowerRune)) d + o + i + (j - i) =
          baseOf ((ctx.texts fileName).map (List.map toLowerRune)) d + o + j := by omega
      show (variantPostings vars2 (ctx.texts fileName)).mem
        (baseOf ((ctx.texts fileName).map (List.map toLowerRune)) d + o + i + (j - i))
      rw [e]
      exact variantPostings_cover vars2 _ _ hv2 _ h2

end ZoektModel.C01
