/-
C01 — L5: whatever the frequencies, `findSelectiveNgrams` returns two positions of the pattern with first ≤ last.
-/
import ZoektModel.C01.Select
namespace ZoektModel.C01

theorem minStep_bound (st : MinSt) (i x N : Nat) (hi : i < N) (h0 : st.idx0 < N) (h1 : st.idx1 < N) :
    (minStep st i x).idx0 < N ∧ (minStep st i x).idx1 < N := by
  unfold minStep
  split
  · exact ⟨hi, h0⟩
  · split
    · exact ⟨h0, hi⟩
    · exact ⟨h0, h1⟩

theorem minLoop_bound : ∀ (xs : List Nat) (i : Nat) (st : MinSt) (N : Nat), i + xs.length = N →
    st.idx0 < N → st.idx1 < N → (minLoop xs i st).idx0 < N ∧ (minLoop xs i st).idx1 < N := by
  intro xs
  induction xs with
  | nil => intro i st N _ h0 h1; exact ⟨h0, h1⟩
  | cons x xs ih =>
    intro i st N hN h0 h1
    simp only [List.length_cons] at hN
    simp only [minLoop]
    obtain ⟨a, b⟩ := minStep_bound st i x N (by omega) h0 h1
    exact ih (i + 1) _ N (by omega) a b

/-- **`selection_consistent`**: for ARBITRARY frequencies, the two selected entries are positions of the pattern's
    trigrams with `first.index ≤ last.index` (so the frequency heuristic can only choose among valid pairs) -/
theorem findSelective_spec (perm indexMap freqs : List Nat) (n : Nat) (hn : perm.length = n) (hpos : 0 < n)
    (hf : freqs.length = n) (hperm : ∀ i, i < n → perm.getD i 0 < n)
    (hinv : ∀ k, k < n → perm.getD (indexMap.getD k 0) 0 = k) :
    (findSelective perm indexMap freqs).1 ≤ (findSelective perm indexMap freqs).2 ∧
    (findSelective perm indexMap freqs).2 < n := by
  obtain ⟨b0, b1⟩ := minLoop_bound freqs 0 ⟨0, 0, maxU32, maxU32⟩ n (by omega) hpos hpos
  unfold findSelective
  simp only []
  generalize minLoop freqs 0 ⟨0, 0, maxU32, maxU32⟩ = st at b0 b1
  have ha := hperm st.idx0 b0
  have hb := hperm st.idx1 b1
  generalize perm.getD st.idx0 0 = a at ha
  generalize perm.getD st.idx1 0 = b at hb
  -- the adjustment step, for a pair first ≤ last < n
  have adjust : ∀ first last, first ≤ last → last < n →
      (let r : Nat × Nat :=
        if last - first < 3 then
          (if last - 3 ≠ first then perm.getD (indexMap.getD (last - 3) 0) 0 else first,
           if min ((if last - 3 ≠ first then perm.getD (indexMap.getD (last - 3) 0) 0 else first) + 3) (perm.length - 1) ≠ last
           then perm.getD (indexMap.getD (min ((if last - 3 ≠ first then perm.getD (indexMap.getD (last - 3) 0) 0 else first) + 3)
              (perm.length - 1)) 0) 0 else last)
        else (first, last)
       r.1 ≤ r.2 ∧ r.2 < n) := by
    intro first last hfl hl
    simp only []
    by_cases hclose : last - first < 3
    · simp only [hclose, if_true]
      have e1 : perm.getD (indexMap.getD (last - 3) 0) 0 = last - 3 := hinv (last - 3) (by omega)
      rw [e1, hn]
      by_cases h1 : last - 3 = first
      · simp only [h1, ne_eq, not_true_eq_false, if_false]
        by_cases h2 : min (first + 3) (n - 1) = last
        · simp only [h2, ne_eq, not_true_eq_false, if_false]; exact ⟨hfl, hl⟩
        · simp only [h2, ne_eq, not_false_eq_true, if_true]
          rw [hinv _ (by omega)]
          exact ⟨by omega, by omega⟩
      · simp only [h1, ne_eq, not_false_eq_true, if_true]
        by_cases h2 : min (last - 3 + 3) (n - 1) = last
        · simp only [h2, ne_eq, not_true_eq_false, if_false]; exact ⟨by omega, hl⟩
        · simp only [h2, ne_eq, not_false_eq_true, if_true]
          rw [hinv _ (by omega)]
          exact ⟨by omega, by omega⟩
    · simp only [hclose, if_false]; exact ⟨hfl, hl⟩
  by_cases hab : a > b
  · simp only [hab, if_true]
    exact adjust b a (by omega) ha
  · simp only [hab, if_false]
    exact adjust a b (by omega) hb


/-! ### the sorted trigram order is a permutation of the pattern's positions, and `indexMap` inverts it -/

theorem insertNg_perm (x : List Nat × Nat) : ∀ (l : List (List Nat × Nat)), (insertNg x l).Perm (x :: l) := by
  intro l
  induction l with
  | nil => exact List.Perm.refl _
  | cons y ys ih =>
    simp only [insertNg]
    split
    · exact List.Perm.refl _
    · exact (List.Perm.cons y ih).trans (List.Perm.swap x y ys)

theorem sortNg_perm : ∀ (l : List (List Nat × Nat)), (sortNg l).Perm l := by
  intro l
  induction l with
  | nil => exact List.Perm.refl _
  | cons a t ih =>
    simp only [sortNg, List.foldr_cons]
    exact (insertNg_perm a _).trans (List.Perm.cons a ih)

theorem sortedPositions_perm (pat : List Nat) : (sortedPositions pat).Perm (List.range (pat.length - 2)) := by
  unfold sortedPositions
  have h1 := (sortNg_perm (splitTrigrams pat)).map (·.2)
  have h2 : (splitTrigrams pat).map (·.2) = List.range (pat.length - 2) := by
    simp [splitTrigrams, List.map_map, Function.comp_def]
  rw [h2] at h1
  exact h1

/-- **`selection_consistent`**, concretely: for every pattern of at least three runes and ARBITRARY frequencies (one
    per trigram), `findSelectiveNgrams` returns two trigram positions `first ≤ last` of the pattern — exactly the
    hypotheses `i ≤ j`, `j + 3 ≤ |pattern|` under which `docIter_candidates_complete` and the composition theorems hold -/
theorem selection_consistent (pat freqs : List Nat) (hlen : 3 ≤ pat.length) (hf : freqs.length = pat.length - 2) :
    (findSelective (sortedPositions pat) (mkIndexMap (sortedPositions pat)) freqs).1 ≤
      (findSelective (sortedPositions pat) (mkIndexMap (sortedPositions pat)) freqs).2 ∧
    (findSelective (sortedPositions pat) (mkIndexMap (sortedPositions pat)) freqs).2 + 3 ≤ pat.length := by
  have hp := sortedPositions_perm pat
  have hl : (sortedPositions pat).length = pat.length - 2 := by rw [hp.length_eq, List.length_range]
  have hmem : ∀ k, k ∈ sortedPositions pat ↔ k < pat.length - 2 := by
    intro k; rw [hp.mem_iff, List.mem_range]
  have r := findSelective_spec (sortedPositions pat) (mkIndexMap (sortedPositions pat)) freqs (pat.length - 2) hl
    (by omega) hf
    (fun i hi => by
      have : (sortedPositions pat).getD i 0 ∈ sortedPositions pat := by
        rw [List.getD_eq_getElem?_getD, List.getElem?_eq_getElem (by omega)]; simp
      exact (hmem _).mp this)
    (fun k hk => by
      have hk' : k ∈ sortedPositions pat := (hmem k).mpr hk
      have hex : ∃ x, x ∈ sortedPositions pat ∧ (x == k) = true := ⟨k, hk', by simp⟩
      have hlt : (sortedPositions pat).findIdx (· == k) < (sortedPositions pat).length :=
        List.findIdx_lt_length_of_exists hex
      have hget := List.findIdx_getElem (w := hlt)
      have e : (mkIndexMap (sortedPositions pat)).getD k 0 = (sortedPositions pat).findIdx (· == k) := by
        simp [mkIndexMap, indexOfNat, List.getD_eq_getElem?_getD, hl, hk]
      rw [e, List.getD_eq_getElem?_getD, List.getElem?_eq_getElem hlt]
      simpa using hget)
  omega

end ZoektModel.C01
