/-
C01 — L9: regexp syntax trees (`regexp/syntax.Regexp` after parsing), their denotational semantics on rune strings,
and an executable model of `regexpToMatchTreeRecursive` (index/eval.go): the literal pre-filter extracted from a regexp,
with its `isEqual` and `singleLine` flags. Core Lean only.
-/
import ZoektModel.C01.Model
namespace ZoektModel.C01

mutual
inductive Rx where
  /-- `OpLiteral`; `fold` = the `FoldCase` flag -/
  | lit (rs : List Nat) (fold : Bool)
  /-- `OpCharClass`: ranges lo..hi -/
  | cls (ranges : List (Nat × Nat))
  | anyNL            -- OpAnyChar
  | anyNotNL         -- OpAnyCharNotNL
  | beginLine | endLine | beginText | endText | wordB | noWordB
  | empty            -- OpEmptyMatch
  | noMatch          -- OpNoMatch
  | cap (r : Rx)
  | star (r : Rx)
  | plus (r : Rx)
  | quest (r : Rx)
  /-- `OpRepeat` with `Min`, `Max` (`none` = -1, unbounded) -/
  | rep (r : Rx) (min : Nat) (max : Option Nat)
  | cat (rs : Rxs)
  | alt (rs : Rxs)
inductive Rxs where
  | nil
  | cons (h : Rx) (t : Rxs)
end

/-- the literal pre-filter (`matchTree` of substring leaves, before iterators are attached) -/
inductive Lit where
  | brute
  | none
  | sub (pat : List Nat) (caseSens : Bool)
  | and (ch : List Lit)
  | andLine (ch : List Lit)
  | or (ch : List Lit)

def Lit.isBrute : Lit → Bool
  | .brute => true
  | _ => false

structure Ext where
  tree : Lit
  isEq : Bool
  singleLine : Bool

mutual
/-- `regexpToMatchTreeRecursive(r, minTextSize = 3, fileName, caseSensitive)` -/
def Rx.extract (caseSens : Bool) : Rx → Ext
  | .lit rs fold =>
    if rs.length ≥ 3 then ⟨.sub rs (!fold && caseSens), true, !rs.contains 10⟩ else ⟨.brute, false, false⟩
  | .cap r => r.extract caseSens
  | .plus r => r.extract caseSens
  | .rep r min _ =>
    if min = 1 then r.extract caseSens
    else if min > 1 then let e := r.extract caseSens; ⟨e.tree, false, e.singleLine⟩
    else ⟨.brute, false, false⟩
  | .cat rs =>
    let (qs, isEq, sl) := Rxs.extractAll caseSens rs
    let isEq := if qs.length > 1 then false else isEq
    let newQs := qs.filter (fun q => !q.isBrute)
    match newQs with
    | [q] => ⟨q, isEq, sl⟩
    | [] => ⟨.brute, isEq, sl⟩
    | _ => if sl then ⟨.andLine newQs, isEq, sl⟩ else ⟨.and newQs, isEq, sl⟩
  | .alt rs =>
    let (qs, isEq, _) := Rxs.extractAll caseSens rs
    if qs.any Lit.isBrute then ⟨.brute, isEq, false⟩
    else if qs.isEmpty then ⟨.none, isEq, false⟩
    else ⟨.or qs, isEq, false⟩
  | .star r => match r with
    | .anyNotNL => ⟨.brute, false, true⟩
    | _ => ⟨.brute, false, false⟩
  | _ => ⟨.brute, false, false⟩
/-- the loop over `r.Sub`: the sub-trees, the conjunction of their `isEqual`s and of their `singleLine`s -/
def Rxs.extractAll (caseSens : Bool) : Rxs → List Lit × Bool × Bool
  | .nil => ([], true, true)
  | .cons h t =>
    let e := h.extract caseSens
    let (qs, isEq, sl) := Rxs.extractAll caseSens t
    (e.tree :: qs, e.isEq && isEq, e.singleLine && sl)
end

end ZoektModel.C01
