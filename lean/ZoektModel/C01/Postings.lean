/-
C01 — L1: the postings of a shard as a function of its texts, `post_complete`, and the document boundaries.
-/
import ZoektModel.C01.IterSpec
namespace ZoektModel.C01

/-! ### document boundaries -/

/-- global rune offset at which document `d` starts, for texts laid out from offset `b` -/
def baseFrom : Nat → List (List Nat) → Nat → Nat
  | b, _, 0 => b
  | b, [], _ + 1 => b
  | b, t :: ts, d + 1 => baseFrom (b + t.length) ts d

/-- `fileEndRunes` / `fileNameEndRunes`: the rune offset at which each document ends -/
def endsFrom : Nat → List (List Nat) → List Nat
  | _, [] => []
  | b, t :: ts => (b + t.length) :: endsFrom (b + t.length) ts

def baseOf (texts : List (List Nat)) (d : Nat) : Nat := baseFrom 0 texts d
def endsOf (texts : List (List Nat)) : List Nat := endsFrom 0 texts
def totalLen (texts : List (List Nat)) : Nat := (texts.map List.length).sum

theorem endsFrom_length (texts : List (List Nat)) : ∀ b, (endsFrom b texts).length = texts.length := by
  induction texts with
  | nil => intro b; rfl
  | cons t ts ih => intro b; simp [endsFrom, ih]

theorem baseFrom_succ (texts : List (List Nat)) : ∀ b d, d < texts.length →
    baseFrom b texts (d + 1) = baseFrom b texts d + (texts.getD d []).length := by
  induction texts with
  | nil => intro b d h; simp at h
  | cons t ts ih =>
    intro b d h
    cases d with
    | zero => simp [baseFrom]
    | succ d =>
      simp only [List.length_cons] at h
      simp only [baseFrom, List.getD_cons_succ]
      exact ih _ d (by omega)

theorem endsFrom_getD (texts : List (List Nat)) : ∀ b d, d < texts.length →
    (endsFrom b texts).getD d 0 = baseFrom b texts (d + 1) := by
  induction texts with
  | nil => intro b d h; simp at h
  | cons t ts ih =>
    intro b d h
    cases d with
    | zero => simp [endsFrom, baseFrom]
    | succ d =>
      simp only [List.length_cons] at h
      simp only [endsFrom, List.getD_cons_succ, baseFrom]
      exact ih _ d (by omega)

theorem baseFrom_le_succ (texts : List (List Nat)) (b d : Nat) : baseFrom b texts d ≤ baseFrom b texts (d + 1) := by
  induction texts generalizing b d with
  | nil => cases d <;> simp [baseFrom]
  | cons t ts ih =>
    cases d with
    | zero => simp [baseFrom]
    | succ d => simp only [baseFrom]; exact ih _ d

theorem baseFrom_mono (texts : List (List Nat)) (b : Nat) : ∀ d d', d ≤ d' → baseFrom b texts d ≤ baseFrom b texts d' := by
  intro d d' h
  induction d' with
  | zero => have : d = 0 := by omega
            subst this; exact Nat.le_refl _
  | succ d' ih =>
    by_cases he : d = d' + 1
    · subst he; exact Nat.le_refl _
    · exact Nat.le_trans (ih (by omega)) (baseFrom_le_succ texts b d')

theorem baseFrom_le_total (texts : List (List Nat)) : ∀ b d, baseFrom b texts d ≤ b + totalLen texts := by
  induction texts with
  | nil => intro b d; cases d <;> simp [baseFrom, totalLen]
  | cons t ts ih =>
    intro b d
    cases d with
    | zero => simp [baseFrom, totalLen]
    | succ d =>
      simp only [baseFrom]
      have := ih (b + t.length) d
      simp only [totalLen, List.map_cons, List.sum_cons] at this ⊢
      omega

/-! ### postings -/

/-- offsets (from `base`) at which the rune string `g` occurs inside one document -/
def docPost (g t : List Nat) (base : Nat) : List Nat :=
  ((List.range t.length).filter (fun o => g.isPrefixOf (t.drop o))).map (· + base)

/-- the posting list of `g`: global rune offsets of its occurrences; an occurrence never spans two documents -/
def postFrom (g : List Nat) : Nat → List (List Nat) → List Nat
  | _, [] => []
  | base, t :: ts => docPost g t base ++ postFrom g (base + t.length) ts

def post (g : List Nat) (texts : List (List Nat)) : List Nat := postFrom g 0 texts

theorem docPost_range (g t : List Nat) (base x : Nat) (h : x ∈ docPost g t base) : base ≤ x ∧ x < base + t.length := by
  simp only [docPost, List.mem_map, List.mem_filter, List.mem_range] at h
  obtain ⟨o, ⟨ho, _⟩, e⟩ := h
  omega

theorem postFrom_range (g : List Nat) (texts : List (List Nat)) : ∀ b x, x ∈ postFrom g b texts →
    b ≤ x ∧ x < b + totalLen texts := by
  induction texts with
  | nil => intro b x h; simp [postFrom] at h
  | cons t ts ih =>
    intro b x h
    simp only [postFrom, List.mem_append] at h
    simp only [totalLen, List.map_cons, List.sum_cons]
    rcases h with h | h
    · have := docPost_range g t b x h; omega
    · have := ih _ x h; simp only [totalLen] at this; omega

theorem docPost_sorted (g t : List Nat) (base : Nat) : SortedL (docPost g t base) := by
  unfold docPost SortedL
  apply List.Pairwise.map (R := fun a b => a < b)
  · intro a b h; omega
  · exact List.Pairwise.filter _ List.pairwise_lt_range

theorem postFrom_sorted (g : List Nat) (texts : List (List Nat)) : ∀ b, SortedL (postFrom g b texts) := by
  induction texts with
  | nil => intro b; simp [postFrom, SortedL]
  | cons t ts ih =>
    intro b
    simp only [postFrom, SortedL]
    rw [List.pairwise_append]
    refine ⟨docPost_sorted g t b, ih _, fun x hx y hy => ?_⟩
    have := docPost_range g t b x hx
    have := postFrom_range g ts _ y hy
    omega

/-- an occurrence of `g` at offset `o` of document `d` is in the posting list, at `base(d) + o` -/
theorem mem_postFrom (g : List Nat) (texts : List (List Nat)) : ∀ b d o, d < texts.length →
    o < (texts.getD d []).length → g.isPrefixOf ((texts.getD d []).drop o) = true →
    baseFrom b texts d + o ∈ postFrom g b texts := by
  induction texts with
  | nil => intro b d o h; simp at h
  | cons t ts ih =>
    intro b d o hd ho hg
    simp only [postFrom, List.mem_append]
    cases d with
    | zero =>
      left
      simp only [List.getD_cons_zero] at ho hg
      simp only [baseFrom, docPost, List.mem_map, List.mem_filter, List.mem_range]
      exact ⟨o, ⟨ho, hg⟩, by omega⟩
    | succ d =>
      right
      simp only [List.length_cons] at hd
      simp only [List.getD_cons_succ] at ho hg
      simp only [baseFrom]
      exact ih _ d o (by omega) ho hg

theorem prefix_drop {α} : ∀ (k : Nat) (l1 l2 : List α), l1 <+: l2 → l1.drop k <+: l2.drop k := by
  intro k
  induction k with
  | zero => intro l1 l2 h; simpa using h
  | succ k ih =>
    intro l1 l2 h
    cases l1 with
    | nil => simp
    | cons a t =>
      cases l2 with
      | nil => simp at h
      | cons b t2 =>
        simp only [List.drop_succ_cons]
        exact ih t t2 (List.cons_prefix_cons.mp h).2

/-- the `k`-th trigram of a pattern -/
def tri (pat : List Nat) (k : Nat) : List Nat := (pat.drop k).take 3

/-- **`post_complete`**: if the pattern occurs at offset `o` of document `d`, then for every `k` with `k + 3 ≤ |pat|` the
    posting list of the pattern's `k`-th trigram contains `base(d) + o + k` -/
theorem post_complete (texts : List (List Nat)) (pat : List Nat) (d o k : Nat) (hd : d < texts.length)
    (hocc : pat.isPrefixOf ((texts.getD d []).drop o) = true) (hk : k + 3 ≤ pat.length) :
    baseOf texts d + o + k ∈ post (tri pat k) texts := by
  have hp : pat <+: (texts.getD d []).drop o := List.isPrefixOf_iff_prefix.mp hocc
  have h1 : pat.drop k <+: (texts.getD d []).drop (o + k) := by
    have := prefix_drop k _ _ hp
    rwa [List.drop_drop] at this
  have h2 : tri pat k <+: (texts.getD d []).drop (o + k) := (List.take_prefix 3 _).trans h1
  have hlen : (tri pat k).length = 3 := by simp [tri]; omega
  have hlt : o + k < (texts.getD d []).length := by
    have := h2.length_le
    rw [hlen, List.length_drop] at this
    omega
  have := mem_postFrom (tri pat k) texts 0 d (o + k) hd hlt (List.isPrefixOf_iff_prefix.mpr h2)
  simp only [baseOf, post]
  rwa [Nat.add_assoc]

end ZoektModel.C01
