/-
C01 — executable model of `generateCaseNgrams` (index/bits.go): the odometer over the `unicode.SimpleFold` orbits of a
trigram's runes. `fold` is a parameter (the driver gets the orbit table of the runes involved from the harness).
Core Lean only.
-/
namespace ZoektModel.C01

/-- one round of the inner `for i := range 3` loop: fold rune `i`; stop unless it came back to the original -/
def stepL (fold : Nat → Nat) : List Nat → List Nat → List Nat
  | o :: os, c :: cs => if fold c ≠ o then fold c :: cs else fold c :: stepL fold os cs
  | _, _ => []

/-- the outer `for {}` loop: append the new `cur`; stop when it is the original again. Fuel: see `genLoop_eq`. -/
def genLoop (fold : Nat → Nat) (orig : List Nat) : Nat → List Nat → List (List Nat) → List (List Nat)
  | 0, _, acc => acc.reverse
  | fuel + 1, cur, acc =>
    let n := stepL fold orig cur
    if n = orig then (n :: acc).reverse else genLoop fold orig fuel n (n :: acc)

/-- `generateCaseNgrams(g)` for the runes `orig` of `g`, with the given fuel -/
def generateCase (fold : Nat → Nat) (orig : List Nat) (fuel : Nat) : List (List Nat) := genLoop fold orig fuel orig []

end ZoektModel.C01
