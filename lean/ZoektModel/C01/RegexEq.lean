/-
C01 — L9: `extract_isEqual`: when `regexpToMatchTreeRecursive` reports `isEqual`, the extracted literal tree is true on a
document exactly when the regexp matches it (so `newMatchTree` may use the tree in place of the regexp).
-/
import ZoektModel.C01.RegexBridge
namespace ZoektModel.C01

mutual
/-- well-formed repeat bounds (`min ≤ max`), as `regexp/syntax` guarantees -/
def Rx.WFr : Rx → Prop
  | .rep r mn mx => (match mx with | Option.none => True | some m => mn ≤ m) ∧ r.WFr
  | .cap r => r.WFr
  | .star r => r.WFr
  | .plus r => r.WFr
  | .quest r => r.WFr
  | .cat rs => Rxs.WFrAll rs
  | .alt rs => Rxs.WFrAll rs
  | _ => True
def Rxs.WFrAll : Rxs → Prop
  | .nil => True
  | .cons h t => h.WFr ∧ Rxs.WFrAll t
end

theorem matchAt_to_lit (cs : Bool) (rs s : List Nat) (o : Nat) (fold ci : Bool) (hcs : cs = (!fold && !ci))
    (hp : 0 < rs.length) (h : matchAt cs (leafPat rs cs) s o = true) : (Rx.lit rs fold).M ci s o (o + rs.length) := by
  have hlen := matchAt_len cs rs s o hp h
  refine ⟨rfl, hlen, fun k hk => ?_⟩
  have hfold : (fold || ci) = !cs := by rw [hcs]; cases fold <;> cases ci <;> rfl
  unfold matchAt leafPat at h
  cases cs with
  | true =>
    have hf : (fold || ci) = false := by simpa using hfold
    simp only [hf, Bool.false_eq_true, if_false]
    simp only [if_true] at h
    obtain ⟨t, ht⟩ := List.isPrefixOf_iff_prefix.mp h
    have : (s.drop o).getD k 0 = rs.getD k 0 := by
      rw [← ht]; simp [List.getD_eq_getElem?_getD, List.getElem?_append_left hk]
    rw [← this]; simp [List.getD_eq_getElem?_getD, List.getElem?_drop]
  | false =>
    have hf : (fold || ci) = true := by simpa using hfold
    simp only [hf, if_true]
    simp only [Bool.false_eq_true, if_false] at h
    obtain ⟨t, ht⟩ := List.isPrefixOf_iff_prefix.mp h
    have hk' : k < (rs.map toLowerRune).length := by simpa using hk
    have e1 : ((s.drop o).map toLowerRune).getD k 0 = (rs.map toLowerRune).getD k 0 := by
      rw [← ht]; simp [List.getD_eq_getElem?_getD, List.getElem?_append_left hk']
    have hko : o + k < s.length := by omega
    have e2 : ((s.drop o).map toLowerRune).getD k 0 = toLowerRune (s.getD (o + k) 0) := by
      simp [List.getD_eq_getElem?_getD, List.getElem?_drop, List.getElem?_eq_getElem hko]
    have e3 : (rs.map toLowerRune).getD k 0 = toLowerRune (rs.getD k 0) := by
      simp [List.getD_eq_getElem?_getD, List.getElem?_eq_getElem hk]
    rw [← e2, e1, e3]

theorem cat_isEq (cs : Bool) (rs : Rxs) : (Rx.extract cs (.cat rs)).isEq =
    (if (Rxs.extractAll cs rs).1.length > 1 then false else (Rxs.extractAll cs rs).2.1) := by
  simp only [Rx.extract]
  generalize Rxs.extractAll cs rs = ea
  obtain ⟨qs, isEq, sl⟩ := ea
  simp only []
  split
  · rfl
  · rfl
  · split <;> rfl

theorem cat_single_tree (cs : Bool) (r : Rx) : (Rx.extract cs (.cat (.cons r .nil))).tree =
    (if (r.extract cs).tree.isBrute then Lit.brute else (r.extract cs).tree) := by
  simp only [Rx.extract, Rxs.extractAll]
  cases h : (r.extract cs).tree.isBrute <;> simp [List.filter, h]

theorem semB_of_isBrute (ctx : Ctx) (d : Nat) (t : Lit) (h : t.isBrute = true) : t.semB ctx d = true := by
  cases t <;> simp [Lit.isBrute] at h
  simp [Lit.semB]

mutual
/-- the converse of `extract_superset` for `isEqual` extractions -/
theorem Rx.eq_ok (ctx : Ctx) (d : Nat) (ci : Bool) : (r : Rx) → r.WFr → (r.extract (!ci)).isEq = true →
    (r.extract (!ci)).tree.semB ctx d = true → r.matchesText ci (ctx.text false d)
  | .lit rs fold, _, he, hs => by
    simp only [Rx.extract] at he hs
    by_cases hl : rs.length ≥ 3
    · simp only [hl, if_true] at hs
      simp only [Lit.semB, occurs, List.any_eq_true, List.mem_range] at hs
      obtain ⟨o, _, ho⟩ := hs
      exact ⟨o, o + rs.length, matchAt_to_lit _ rs _ o fold ci rfl (by omega) ho⟩
    · simp [hl] at he
  | .cap r, hw, he, hs => by
    simp only [Rx.extract] at he hs
    exact Rx.eq_ok ctx d ci r hw he hs
  | .plus r, hw, he, hs => by
    simp only [Rx.extract] at he hs
    obtain ⟨i, j, h⟩ := Rx.eq_ok ctx d ci r hw he hs
    exact ⟨i, j, j, h, StarM.refl j⟩
  | .rep r mn mx, hw, he, hs => by
    simp only [Rx.extract] at he hs
    by_cases h1 : mn = 1
    · simp only [h1, if_true] at he hs
      obtain ⟨i, j, h⟩ := Rx.eq_ok ctx d ci r hw.2 he hs
      have hspan := (Rx.ext_ok ci _ r i j h).1
      refine ⟨i, j, by omega, 1, by omega, ?_, j, h, rfl⟩
      have := hw.1
      cases mx with
      | none => trivial
      | some m => simp only at this ⊢; omega
    · simp only [h1, if_false] at he
      by_cases h2 : mn > 1 <;> simp [h2] at he
  | .cat rs, hw, he, hs => by
    rw [cat_isEq] at he
    cases rs with
    | nil =>
      exact ⟨0, 0, rfl, Nat.zero_le _⟩
    | cons r t =>
      cases t with
      | nil =>
        simp only [Rxs.extractAll, List.length_cons, List.length_nil, Bool.and_true] at he
        have he' : (r.extract (!ci)).isEq = true := by
          have : ¬ (0 + 1 > 1) := by omega
          simpa [this] using he
        rw [cat_single_tree] at hs
        have hs' : (r.extract (!ci)).tree.semB ctx d = true := by
          cases hb : (r.extract (!ci)).tree.isBrute
          · simpa [hb] using hs
          · exact semB_of_isBrute ctx d _ hb
        obtain ⟨i, j, h⟩ := Rx.eq_ok ctx d ci r hw.1 he' hs'
        have hspan := (Rx.ext_ok ci _ r i j h).1
        exact ⟨i, j, j, h, rfl, hspan.2⟩
      | cons r2 t2 =>
        simp only [Rxs.extractAll, List.length_cons] at he
        have : (Rxs.extractAll (!ci) t2).1.length + 1 + 1 > 1 := by omega
        simp [this] at he
  | .alt rs, hw, he, hs => by
    simp only [Rx.extract] at he hs
    have key := Rxs.altEq_ok ctx d ci rs hw
    generalize Rxs.extractAll (!ci) rs = ea at he hs key
    obtain ⟨qs, isEq, sl⟩ := ea
    simp only at he hs key
    by_cases hb : qs.any Lit.isBrute = true
    · simp only [hb, if_true] at he
      obtain ⟨i, j, h⟩ := key.1 he hb
      exact ⟨i, j, h⟩
    · simp only [hb, Bool.false_eq_true, if_false] at he hs
      by_cases hemp : qs.isEmpty = true
      · simp [hemp, Lit.semB] at hs
      · simp only [hemp, Bool.false_eq_true, if_false] at he hs
        simp only [Lit.semB] at hs
        obtain ⟨i, j, h⟩ := key.2 he hs
        exact ⟨i, j, h⟩
  | .star r, _, he, _ => by cases r <;> simp [Rx.extract] at he
  | .cls _, _, he, _ => by simp [Rx.extract] at he
  | .anyNL, _, he, _ => by simp [Rx.extract] at he
  | .anyNotNL, _, he, _ => by simp [Rx.extract] at he
  | .beginLine, _, he, _ => by simp [Rx.extract] at he
  | .endLine, _, he, _ => by simp [Rx.extract] at he
  | .beginText, _, he, _ => by simp [Rx.extract] at he
  | .endText, _, he, _ => by simp [Rx.extract] at he
  | .wordB, _, he, _ => by simp [Rx.extract] at he
  | .noWordB, _, he, _ => by simp [Rx.extract] at he
  | .empty, _, he, _ => by simp [Rx.extract] at he
  | .noMatch, _, he, _ => by simp [Rx.extract] at he
  | .quest _, _, he, _ => by simp [Rx.extract] at he
/-- for an alternation whose branches are all `isEqual`: a brute branch, or a true branch, gives a match -/
theorem Rxs.altEq_ok (ctx : Ctx) (d : Nat) (ci : Bool) : (rs : Rxs) → Rxs.WFrAll rs →
    ((Rxs.extractAll (!ci) rs).2.1 = true → (Rxs.extractAll (!ci) rs).1.any Lit.isBrute = true →
      ∃ i j, Rxs.MAlt ci (ctx.text false d) rs i j) ∧
    ((Rxs.extractAll (!ci) rs).2.1 = true → Lit.semAnyB ctx d (Rxs.extractAll (!ci) rs).1 = true →
      ∃ i j, Rxs.MAlt ci (ctx.text false d) rs i j)
  | .nil, _ => by
    simp only [Rxs.extractAll]
    exact ⟨fun _ h => by simp at h, fun _ h => by simp [Lit.semAnyB] at h⟩
  | .cons r t, hw => by
    obtain ⟨k1, k2⟩ := Rxs.altEq_ok ctx d ci t hw.2
    simp only [Rxs.extractAll, Bool.and_eq_true, List.any_cons, Bool.or_eq_true, Lit.semAnyB]
    refine ⟨fun he hb => ?_, fun he hs => ?_⟩
    · rcases hb with hb | hb
      · have hs : (r.extract (!ci)).tree.semB ctx d = true := semB_of_isBrute ctx d _ hb
        obtain ⟨i, j, h⟩ := Rx.eq_ok ctx d ci r hw.1 he.1 hs
        exact ⟨i, j, Or.inl h⟩
      · obtain ⟨i, j, h⟩ := k1 he.2 hb
        exact ⟨i, j, Or.inr h⟩
    · rcases hs with hs | hs
      · obtain ⟨i, j, h⟩ := Rx.eq_ok ctx d ci r hw.1 he.1 hs
        exact ⟨i, j, Or.inl h⟩
      · obtain ⟨i, j, h⟩ := k2 he.2 hs
        exact ⟨i, j, Or.inr h⟩
end

/-- **`extract_isEqual`**: an `isEqual` extraction is true on a document exactly when the regexp matches its content -/
theorem extract_isEqual_doc (ctx : Ctx) (d : Nat) (ci : Bool) (r : Rx) (hw : r.WFr)
    (he : (r.extract (!ci)).isEq = true) :
    (r.extract (!ci)).tree.semB ctx d = true ↔ r.matchesText ci (ctx.text false d) :=
  ⟨Rx.eq_ok ctx d ci r hw he, extract_superset_doc ctx d ci r⟩

end ZoektModel.C01
