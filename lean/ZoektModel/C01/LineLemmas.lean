/-
C01 — the same-line shortcut of `andLineMatchTree.matches`: the merge loop answers `true` exactly when one of the line
ranges contains a candidate of every (other) child.
-/
import ZoektModel.C01.Model
namespace ZoektModel.C01

/-- the child has a candidate in `[s, e)` -/
def inLine (s e : Nat) (c : List Nat) : Prop := ∃ x, x ∈ c ∧ s ≤ x ∧ x < e

/-- every child has a candidate in `[s, e)` -/
def AllIn (s e : Nat) (ch : List (List Nat)) : Prop := ∀ c, c ∈ ch → inLine s e c

def SortedC (c : List Nat) : Prop := c.Pairwise (· < ·)

theorem mem_dropWhile_of_not {p : Nat → Bool} (c : List Nat) (x : Nat) (hx : x ∈ c) (hp : p x = false) :
    x ∈ c.dropWhile p := by
  induction c with
  | nil => simp at hx
  | cons a t ih =>
    simp only [List.dropWhile_cons]
    by_cases ha : p a = true
    · simp only [ha, if_true]
      rcases List.mem_cons.mp hx with h | h
      · subst h; rw [ha] at hp; exact absurd hp (by simp)
      · exact ih h
    · simp only [ha]; exact hx

theorem dropWhile_subset {p : Nat → Bool} (c : List Nat) (x : Nat) (hx : x ∈ c.dropWhile p) : x ∈ c :=
  (List.dropWhile_sublist p).subset hx

theorem dropWhile_sorted {p : Nat → Bool} (c : List Nat) (h : SortedC c) : SortedC (c.dropWhile p) :=
  List.Pairwise.sublist (List.dropWhile_sublist p) h

theorem dropWhile_head {p : Nat → Bool} (c : List Nat) (b : Nat) (t : List Nat) (h : c.dropWhile p = b :: t) :
    p b = false := by
  induction c with
  | nil => simp at h
  | cons a r ih =>
    simp only [List.dropWhile_cons] at h
    by_cases ha : p a = true
    · simp only [ha, if_true] at h; exact ih h
    · simp only [ha] at h
      have : a = b := (List.cons.inj h).1
      subst this; simpa using ha

theorem inLine_dropWhile (start s e : Nat) (c : List Nat) (hs : start ≤ s) :
    inLine s e (c.dropWhile (· < start)) ↔ inLine s e c := by
  constructor
  · intro ⟨x, hx, a, b⟩; exact ⟨x, dropWhile_subset c x hx, a, b⟩
  · intro ⟨x, hx, a, b⟩
    exact ⟨x, mem_dropWhile_of_not c x hx (by simp; omega), a, b⟩

theorem allIn_cons (s e : Nat) (c : List Nat) (ch : List (List Nat)) :
    AllIn s e (c :: ch) ↔ inLine s e c ∧ AllIn s e ch := by
  simp [AllIn]

/-- the `nextChild` loop for one line -/
theorem scanChildren_spec (start stop : Nat) : ∀ (ch : List (List Nat)), (∀ c, c ∈ ch → SortedC c) →
    (scanChildren start stop ch).2.1.length = ch.length ∧
    (∀ c, c ∈ (scanChildren start stop ch).2.1 → SortedC c) ∧
    (∀ s' e', start ≤ s' → (AllIn s' e' (scanChildren start stop ch).2.1 ↔ AllIn s' e' ch)) ∧
    (scanChildren start stop ch).1 ≤ ch.length ∧
    ((scanChildren start stop ch).2.2 = Option.none → ((scanChildren start stop ch).1 = ch.length ↔ AllIn start stop ch)) ∧
    (∀ bo, (scanChildren start stop ch).2.2 = some bo →
      stop ≤ bo ∧ ∀ s' e', start ≤ s' → e' ≤ bo → ¬ AllIn s' e' ch) := by
  intro ch
  induction ch with
  | nil =>
    intro _
    simp only [scanChildren]
    exact ⟨trivial, fun c h => by simp at h, fun _ _ _ => trivial, Nat.le_refl _,
      fun _ => ⟨fun _ => by simp [AllIn], fun _ => rfl⟩, fun bo h => by simp at h⟩
  | cons c rest ih =>
    intro hs
    have hsc : SortedC c := hs c List.mem_cons_self
    obtain ⟨i1, i2, i3, i4, i5, i6⟩ := ih (fun x hx => hs x (List.mem_cons_of_mem _ hx))
    have hdw := inLine_dropWhile start
    rw [scanChildren]
    cases hd : c.dropWhile (· < start) with
    | nil =>
      simp only []
      -- the child is exhausted: it has nothing at or after `start`
      have hno : ∀ s' e', start ≤ s' → ¬ inLine s' e' c := by
        intro s' e' h1 h2
        have := (hdw s' e' c h1).mpr h2
        rw [hd] at this
        obtain ⟨x, hx, _⟩ := this; simp at hx
      refine ⟨by simp [i1], ?_, ?_, by simp only [List.length_cons]; omega, ?_, ?_⟩
      · intro x hx
        rcases List.mem_cons.mp hx with h | h
        · subst h; simp [SortedC]
        · exact i2 x h
      · intro s' e' h1
        rw [allIn_cons, allIn_cons, i3 s' e' h1]
        constructor
        · intro ⟨⟨x, hx, _⟩, _⟩; simp at hx
        · intro ⟨a, _⟩; exact absurd a (hno s' e' h1)
      · intro _
        simp only [List.length_cons]
        constructor
        · intro h; omega
        · intro h; exact absurd ((allIn_cons _ _ _ _).mp h).1 (hno start stop (Nat.le_refl _))
      · intro bo hb
        obtain ⟨a, b⟩ := i6 bo hb
        exact ⟨a, fun s' e' h1 h2 h3 => b s' e' h1 h2 ((allIn_cons _ _ _ _).mp h3).2⟩
    | cons bo c' =>
      simp only []
      have hbo : start ≤ bo := by
        have := dropWhile_head c bo c' hd
        simp at this; omega
      have hsd : SortedC (bo :: c') := by rw [← hd]; exact dropWhile_sorted c hsc
      have hmin : ∀ x, x ∈ (bo :: c') → bo ≤ x := by
        intro x hx
        rcases List.mem_cons.mp hx with h | h
        · omega
        · have := (List.pairwise_cons.mp hsd).1 x h; omega
      have hiff : ∀ s' e', start ≤ s' → (inLine s' e' (bo :: c') ↔ inLine s' e' c) := by
        intro s' e' h1; rw [← hd]; exact hdw s' e' c h1
      by_cases hlt : bo < stop
      · simp only [hlt, if_true]
        refine ⟨by simp [i1], ?_, ?_, by simp only [List.length_cons]; omega, ?_, ?_⟩
        · intro x hx
          rcases List.mem_cons.mp hx with h | h
          · subst h; exact hsd
          · exact i2 x h
        · intro s' e' h1
          rw [allIn_cons, allIn_cons, i3 s' e' h1, hiff s' e' h1]
        · intro hj
          simp only [List.length_cons]
          have hin : inLine start stop c := (hiff start stop (Nat.le_refl _)).mp ⟨bo, List.mem_cons_self, hbo, hlt⟩
          rw [allIn_cons]
          constructor
          · intro h; exact ⟨hin, (i5 hj).mp (by omega)⟩
          · intro ⟨_, h⟩; have := (i5 hj).mpr h; omega
        · intro b hb
          obtain ⟨a, b'⟩ := i6 b hb
          exact ⟨a, fun s' e' h1 h2 h3 => b' s' e' h1 h2 ((allIn_cons _ _ _ _).mp h3).2⟩
      · simp only [hlt, if_false]
        refine ⟨by simp, ?_, ?_, by simp, fun h => by simp at h, ?_⟩
        · intro x hx
          rcases List.mem_cons.mp hx with h | h
          · subst h; exact hsd
          · exact hs x (List.mem_cons_of_mem _ h)
        · intro s' e' h1
          rw [allIn_cons, allIn_cons, hiff s' e' h1]
        · intro b hb
          simp only [Option.some.injEq] at hb
          subst hb
          refine ⟨by omega, fun s' e' h1 h2 h3 => ?_⟩
          obtain ⟨x, hx, a, b⟩ := (hiff s' e' h1).mpr ((allIn_cons _ _ _ _).mp h3).1
          have := hmin x hx
          omega


/-- line ranges in increasing order, not overlapping -/
def LinesOK (lines : List (Nat × Nat)) : Prop :=
  lines.Pairwise (fun a b => a.2 ≤ b.1) ∧ ∀ l, l ∈ lines → l.1 ≤ l.2

theorem mem_dropWhile_or {α} (p : α → Bool) (l : List α) (x : α) (hx : x ∈ l) : x ∈ l.dropWhile p ∨ p x = true := by
  induction l with
  | nil => simp at hx
  | cons a t ih =>
    simp only [List.dropWhile_cons]
    by_cases ha : p a = true
    · simp only [ha, if_true]
      rcases List.mem_cons.mp hx with h | h
      · subst h; exact Or.inr ha
      · exact ih h
    · simp only [ha]; exact Or.inl hx

/-- **the same-line merge loop**: it answers `true` iff one of the lines holds a candidate of every child -/
theorem lineLoop_spec : ∀ (fuel : Nat) (lines : List (Nat × Nat)) (ch : List (List Nat)),
    lines.length < fuel → LinesOK lines → (∀ c, c ∈ ch → SortedC c) →
    (lineLoop fuel lines ch (ch.length + 1) = true ↔ ∃ l, l ∈ lines ∧ AllIn l.1 l.2 ch) := by
  intro fuel
  induction fuel with
  | zero => intro lines ch h; omega
  | succ fuel ih =>
    intro lines ch hf hl hs
    cases lines with
    | nil => simp [lineLoop]
    | cons l ls =>
      obtain ⟨s, e⟩ := l
      have hse : s ≤ e := hl.2 (s, e) List.mem_cons_self
      have hls : LinesOK ls := ⟨(List.pairwise_cons.mp hl.1).2, fun x hx => hl.2 x (List.mem_cons_of_mem _ hx)⟩
      have hge : ∀ x, x ∈ ls → s ≤ x.1 := by
        intro x hx
        have := (List.pairwise_cons.mp hl.1).1 x hx
        simp only at this; omega
      obtain ⟨a1, a2, a3, a4, a5, a6⟩ := scanChildren_spec s e ch hs
      rw [lineLoop]
      generalize scanChildren s e ch = r at a1 a2 a3 a4 a5 a6
      obtain ⟨h, ch', j⟩ := r
      simp only at a1 a2 a3 a4 a5 a6
      cases j with
      | none =>
        simp only []
        have a5' := a5 rfl
        by_cases hh : h + 1 = ch.length + 1
        · simp only [hh, if_true, true_iff]
          exact ⟨(s, e), List.mem_cons_self, a5'.mp (by omega)⟩
        · simp only [hh, if_false]
          have hn : ¬ AllIn s e ch := fun hall => hh (by have := a5'.mpr hall; omega)
          have := ih ls ch' (by simp only [List.length_cons] at hf; omega) hls a2
          rw [a1] at this
          rw [this]
          constructor
          · intro ⟨x, hx, hall⟩
            exact ⟨x, List.mem_cons_of_mem _ hx, (a3 x.1 x.2 (hge x hx)).mp hall⟩
          · intro ⟨x, hx, hall⟩
            rcases List.mem_cons.mp hx with h1 | h1
            · subst h1; exact absurd hall hn
            · exact ⟨x, h1, (a3 x.1 x.2 (hge x h1)).mpr hall⟩
      | some bo =>
        simp only []
        obtain ⟨b1, b2⟩ := a6 bo rfl
        have hdrop : (((s, e) :: ls).dropWhile (fun l => decide (bo ≥ l.2))) = ls.dropWhile (fun l => decide (bo ≥ l.2)) := by
          simp only [List.dropWhile_cons]
          have : decide (bo ≥ e) = true := by simp; omega
          simp [this]
        rw [hdrop]
        have hsub := List.dropWhile_sublist (l := ls) (fun l => decide (bo ≥ l.2))
        have hl' : LinesOK (ls.dropWhile (fun l => decide (bo ≥ l.2))) :=
          ⟨List.Pairwise.sublist hsub hls.1, fun x hx => hls.2 x (hsub.subset hx)⟩
        have hlen := hsub.length_le
        have := ih (ls.dropWhile (fun l => decide (bo ≥ l.2))) ch'
          (by simp only [List.length_cons] at hf; omega) hl' a2
        rw [a1] at this
        rw [this]
        constructor
        · intro ⟨x, hx, hall⟩
          have hx' := hsub.subset hx
          exact ⟨x, List.mem_cons_of_mem _ hx', (a3 x.1 x.2 (hge x hx')).mp hall⟩
        · intro ⟨x, hx, hall⟩
          rcases List.mem_cons.mp hx with h1 | h1
          · subst h1; exact absurd hall (b2 s e (Nat.le_refl _) b1)
          · rcases mem_dropWhile_or (fun l => decide (bo ≥ l.2)) ls x h1 with h2 | h2
            · exact ⟨x, h2, (a3 x.1 x.2 (hge x h1)).mpr hall⟩
            · have : x.2 ≤ bo := by simpa using h2
              exact absurd hall (b2 x.1 x.2 (hge x h1) this)

end ZoektModel.C01
