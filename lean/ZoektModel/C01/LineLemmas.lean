/-
C01 — the same-line shortcut of `andLineMatchTree.matches`: the merge loop answers `true` exactly when one of the line
ranges contains a candidate of every (other) child.
-/
import ZoektModel.C01.Model
namespace ZoektModel.C01

/-- the child has a candidate in `[s, e)` -/
def inLine (s e : Nat) (c : List Nat) : Prop := ∃ x, x ∈ c ∧ s ≤ x ∧ x < e

/-- every child has a candidate in `[s, e)` -/
def AllIn (s e : Nat) (ch : List (List Nat)) : Prop := ∀ c, c ∈ ch → inLine s e c

def SortedC (c : List Nat) : Prop := c.Pairwise (· < ·)

theorem mem_dropWhile_of_not {p : Nat → Bool} (c : List Nat) (x : Nat) (hx : x ∈ c) (hp : p x = false) :
    x ∈ c.dropWhile p := by
  induction c with
  | nil => simp at hx
  | cons a t ih =>
    simp only [List.dropWhile_cons]
    by_cases ha : p a = true
    · simp only [ha, if_true]
      rcases List.mem_cons.mp hx with h | h
      · subst h; rw [ha] at hp; exact absurd hp (by simp)
      · exact ih h
    · simp only [ha]; exact hx

theorem dropWhile_subset {p : Nat → Bool} (c : List Nat) (x : Nat) (hx : x ∈ c.dropWhile p) : x ∈ c :=
  (List.dropWhile_sublist p).subset hx

theorem dropWhile_sorted {p : Nat → Bool} (c : List Nat) (h : SortedC c) : SortedC (c.dropWhile p) :=
  List.Pairwise.sublist (List.dropWhile_sublist p) h

theorem dropWhile_head {p : Nat → Bool} (c : List Nat) (b : Nat) (t : List Nat) (h : c.dropWhile p = b :: t) :
    p b = false := by
  induction c with
  | nil => simp at h
  | cons a r ih =>
    simp only [List.dropWhile_cons] at h
    by_cases ha : p a = true
    · simp only [ha, if_true] at h; exact ih h
    · simp only [ha] at h
      have : a = b := (List.cons.inj h).1
      subst this; simpa using ha

theorem inLine_dropWhile (start s e : Nat) (c : List Nat) (hs : start ≤ s) :
    inLine s e (c.dropWhile (· < start)) ↔ inLine s e c := by
  constructor
  · intro ⟨x, hx, a, b⟩; exact ⟨x, dropWhile_subset c x hx, a, b⟩
  · intro ⟨x, hx, a, b⟩
    exact ⟨x, mem_dropWhile_of_not c x hx (by simp; omega), a, b⟩

theorem allIn_cons (s e : Nat) (c : List Nat) (ch : List (List Nat)) :
    AllIn s e (c :: ch) ↔ inLine s e c ∧ AllIn s e ch := by
  simp [AllIn]

/-- the `nextChild` loop for one line -/
theorem scanChildren_spec (start stop : Nat) : ∀ (ch : List (List Nat)), (∀ c, c ∈ ch → SortedC c) →
    (scanChildren start stop ch).2.1.length = ch.length ∧
    (∀ c, c ∈ (scanChildren start stop ch).2.1 → SortedC c) ∧
    (∀ s' e', start ≤ s' → (AllIn s' e' (scanChildren start stop ch).2.1 ↔ AllIn s' e' ch)) ∧
    (scanChildren start stop ch).1 ≤ ch.length ∧
    ((scanChildren start stop ch).2.2 = Option.none → ((scanChildren start stop ch).1 = ch.length ↔ AllIn start stop ch)) ∧
    (∀ bo, (scanChildren start stop ch).2.2 = some bo →
      stop ≤ bo ∧ ∀ s' e', start ≤ s' → e' ≤ bo → ¬ AllIn s' e' ch) := by
  intro ch
  induction ch with
  | nil =>
    intro _
    simp only [scanChildren]
    exact ⟨trivial, fun c h => by simp at h, fun _ _ _ => trivial, Nat.le_refl _,
      fun _ => ⟨fun _ => by simp [AllIn], fun _ => rfl⟩, fun bo h => by simp at h⟩
  | cons c rest ih =>
    intro hs
    have hsc : SortedC c := hs c List.mem_cons_self
    obtain ⟨i1, i2, i3, i4, i5, i6⟩ := ih (fun x hx => hs x (List.mem_cons_of_mem _ hx))
    have hdw := inLine_dropWhile start
    rw [scanChildren]
    cases hd : c.dropWhile (· < start) with
    | nil =>
      simp only []
      -- the child is exhausted: it has nothing at or after `start`
      have hno : ∀ s' e', start ≤ s' → ¬ inLine s' e' c := by
        intro s' e' h1 h2
        have := (hdw s' e' c h1).mpr h2
        rw [hd] at this
        obtain ⟨x, hx, _⟩ := this; simp at hx
      refine ⟨by simp [i1], ?_, ?_, by simp only [List.length_cons]; omega, ?_, ?_⟩
      · intro x hx
        rcases List.mem_cons.mp hx with h | h
        · subst h; simp [SortedC]
        · exact i2 x h
      · intro s' e' h1
        rw [allIn_cons, allIn_cons, i3 s' e' h1]
        constructor
        · intro ⟨⟨x, hx, _⟩, _⟩; simp at hx
        · intro ⟨a, _⟩; exact absurd a (hno s' e' h1)
      · intro _
        simp only [List.length_cons]
        constructor
        · intro h; omega
        · intro h; exact absurd ((allIn_cons _ _ _ _).mp h).1 (hno start stop (Nat.le_refl _))
      · intro bo hb
        obtain ⟨a, b⟩ := i6 bo hb
        exact ⟨a, fun s' e' h1 h2 h3 => b s' e' h1 h2 ((allIn_cons _ _ _ _).mp h3).2⟩
    | cons bo c' =>
      simp only []
      have hbo : start ≤ bo := by
        have := dropWhile_head c bo c' hd
        simp at this; omega
      have hsd : SortedC (bo :: c') := by rw [← hd]; exact dropWhile_sorted c hsc
      have hmin : ∀ x, x ∈ (bo :: c') → bo ≤ x := by
        intro x hx
        rcases List.mem_cons.mp hx with h | h
        · omega
        · have := (List.pairwise_cons.mp hsd).1 x h; omega
      have hiff : ∀ s' e', start ≤ s' → (inLine s' e' (bo :: c') ↔ inLine s' e' c) := by
        intro s' e' h1; rw [← hd]; exact hdw s' e' c h1
      by_cases hlt : bo < stop
      · simp only [hlt, if_true]
        refine ⟨by simp [i1], ?_, ?_, by simp only [List.length_cons]; omega, ?_, ?_⟩
        · intro x hx
          rcases List.mem_cons.mp hx with h | h
          · subst h; exact hsd
          · exact i2 x h
        · intro s' e' h1
          rw [allIn_cons, allIn_cons, i3 s' e' h1, hiff s' e' h1]
        · intro hj
          simp only [List.length_cons]
          have hin : inLine start stop c := (hiff start stop (Nat.le_refl _)).mp ⟨bo, List.mem_cons_self, hbo, hlt⟩
          rw [allIn_cons]
          constructor
          · intro h; exact ⟨hin, (i5 hj).mp (by omega)⟩
          · intro ⟨_, h⟩; have := (i5 hj).mpr h; omega
        · intro b hb
          obtain ⟨a, b'⟩ := i6 b hb
          exact ⟨a, fun s' e' h1 h2 h3 => b' s' e' h1 h2 ((allIn_cons _ _ _ _).mp h3).2⟩
      · simp only [hlt, if_false]
        refine ⟨by simp, ?_, ?_, by simp, fun h => by simp at h, ?_⟩
        · intro x hx
          rcases List.mem_cons.mp hx with h | h
          · subst h; exact hsd
          · exact hs x (List.mem_cons_of_mem _ h)
        · intro s' e' h1
          rw [allIn_cons, allIn_cons, hiff s' e' h1]
        · intro b hb
          simp only [Option.some.injEq] at hb
          subst hb
          refine ⟨by omega, fun s' e' h1 h2 h3 => ?_⟩
          obtain ⟨x, hx, a, b⟩ := (hiff s' e' h1).mpr ((allIn_cons _ _ _ _).mp h3).1
          have := hmin x hx
          omega


/-- line ranges in increasing order, not overlapping -/
def LinesOK (lines : List (Nat × Nat)) : Prop :=
  lines.Pairwise (fun a b => a.2 ≤ b.1) ∧ ∀ l, l ∈ lines → l.1 ≤ l.2

theorem mem_dropWhile_or {α} (p : α → Bool) (l : List α) (x : α) (hx : x ∈ l) : x ∈ l.dropWhile p ∨ p x = true := by
  induction l with
  | nil => simp at hx
  | cons a t ih =>
    simp only [List.dropWhile_cons]
    by_cases ha : p a = true
    · simp only [ha, if_true]
      rcases List.mem_cons.mp hx with h | h
      · subst h; exact Or.inr ha
      · exact ih h
    · simp only [ha]; exact Or.inl hx

/-- **the same-line merge loop**: it answers `true` iff one of the lines holds a candidate of every child -/
theorem lineLoop_spec : ∀ (fuel : Nat) (lines : List (Nat × Nat)) (ch : List (List Nat)),
    lines.length < fuel → LinesOK lines → (∀ c, c ∈ ch → SortedC c) →
    (lineLoop fuel lines ch (ch.length + 1) = true ↔ ∃ l, l ∈ lines ∧ AllIn l.1 l.2 ch) := by
  intro fuel
  induction fuel with
  | zero => intro lines ch h; omega
  | succ fuel ih =>
    intro lines ch hf hl hs
    cases lines with
    | nil => simp [lineLoop]
    | cons l ls =>
      obtain ⟨s, e⟩ := l
      have hse : s ≤ e := hl.2 (s, e) List.mem_cons_self
      have hls : LinesOK ls := ⟨(List.pairwise_cons.mp hl.1).2, fun x hx => hl.2 x (List.mem_cons_of_mem _ hx)⟩
      have hge : ∀ x, x ∈ ls → s ≤ x.1 := by
        intro x hx
        have := (List.pairwise_cons.mp hl.1).1 x hx
        simp only at this; omega
      obtain ⟨a1, a2, a3, a4, a5, a6⟩ := scanChildren_spec s e ch hs
      rw [lineLoop]
      generalize scanChildren s e ch = r at a1 a2 a3 a4 a5 a6
      obtain ⟨h, ch', j⟩ := r
      simp only at a1 a2 a3 a4 a5 a6
      cases j with
      | none =>
        simp only []
        have a5' := a5 rfl
        by_cases hh : h + 1 = ch.length + 1
        · simp only [hh, if_true, true_iff]
          exact ⟨(s, e), List.mem_cons_self, a5'.mp (by omega)⟩
        · simp only [hh, if_false]
          have hn : ¬ AllIn s e ch := fun hall => hh (by have := a5'.mpr hall; omega)
          have := ih ls ch' (by simp only [List.length_cons] at hf; omega) hls a2
          rw [a1] at this
          rw [this]
          constructor
          · intro ⟨x, hx, hall⟩
            exact ⟨x, List.mem_cons_of_mem _ hx, (a3 x.1 x.2 (hge x hx)).mp hall⟩
          · intro ⟨x, hx, hall⟩
            rcases List.mem_cons.mp hx with h1 | h1
            · subst h1; exact absurd hall hn
            · exact ⟨x, h1, (a3 x.1 x.2 (hge x h1)).mpr hall⟩
      | some bo =>
        simp only []
        obtain ⟨b1, b2⟩ := a6 bo rfl
        have hdrop : (((s, e) :: ls).dropWhile (fun l => decide (bo ≥ l.2))) = ls.dropWhile (fun l => decide (bo ≥ l.2)) := by
          simp only [List.dropWhile_cons]
          have : decide (bo ≥ e) = true := by simp; omega
          simp [this]
        rw [hdrop]
        have hsub := List.dropWhile_sublist (l := ls) (fun l => decide (bo ≥ l.2))
        have hl' : LinesOK (ls.dropWhile (fun l => decide (bo ≥ l.2))) :=
          ⟨List.Pairwise.sublist hsub hls.1, fun x hx => hls.2 x (hsub.subset hx)⟩
        have hlen := hsub.length_le
        have := ih (ls.dropWhile (fun l => decide (bo ≥ l.2))) ch'
          (by simp only [List.length_cons] at hf; omega) hl' a2
        rw [a1] at this
        rw [this]
        constructor
        · intro ⟨x, hx, hall⟩
          have hx' := hsub.subset hx
          exact ⟨x, List.mem_cons_of_mem _ hx', (a3 x.1 x.2 (hge x hx')).mp hall⟩
        · intro ⟨x, hx, hall⟩
          rcases List.mem_cons.mp hx with h1 | h1
          · subst h1; exact absurd hall (b2 s e (Nat.le_refl _) b1)
          · rcases mem_dropWhile_or (fun l => decide (bo ≥ l.2)) ls x h1 with h2 | h2
            · exact ⟨x, h2, (a3 x.1 x.2 (hge x h1)).mpr hall⟩
            · have : x.2 ≤ bo := by simpa using h2
              exact absurd hall (b2 x.1 x.2 (hge x h1) this)


/-! ### lines of a text: `atOffset`, `lineStart`, `lineRanges` -/

/-- newline offsets: increasing, inside the file -/
def NlsOK (nls : List Nat) (fs : Nat) : Prop := SortedC nls ∧ ∀ x, x ∈ nls → x < fs

theorem sorted_getD_lt : ∀ (l : List Nat), SortedC l → ∀ i j, i < j → j < l.length → l.getD i 0 < l.getD j 0 := by
  intro l
  induction l with
  | nil => intro _ i j _ h; simp at h
  | cons a t ih =>
    intro hs i j hij hj
    cases j with
    | zero => omega
    | succ j =>
      simp only [List.length_cons] at hj
      cases i with
      | zero =>
        simp only [List.getD_cons_zero, List.getD_cons_succ]
        have hm : t.getD j 0 ∈ t := by
          rw [List.getD_eq_getElem?_getD, List.getElem?_eq_getElem (by omega)]; simp
        exact (List.pairwise_cons.mp hs).1 _ hm
      | succ i =>
        simp only [List.getD_cons_succ]
        exact ih (List.pairwise_cons.mp hs).2 i j (by omega) (by omega)

theorem getD_mem (l : List Nat) (i : Nat) (h : i < l.length) : l.getD i 0 ∈ l := by
  rw [List.getD_eq_getElem?_getD, List.getElem?_eq_getElem h]; simp

/-- in a sorted list, the elements below `off` are exactly the first `k` ones -/
theorem countLt_spec : ∀ (nls : List Nat), SortedC nls → ∀ off,
    (nls.filter (· < off)).length ≤ nls.length ∧
    (∀ i, i < (nls.filter (· < off)).length → nls.getD i 0 < off) ∧
    (∀ i, (nls.filter (· < off)).length ≤ i → i < nls.length → off ≤ nls.getD i 0) := by
  intro nls
  induction nls with
  | nil => intro _ off; simp
  | cons a t ih =>
    intro hs off
    obtain ⟨i1, i2, i3⟩ := ih (List.pairwise_cons.mp hs).2 off
    by_cases ha : a < off
    · simp only [List.filter_cons, ha, decide_true, if_true, List.length_cons]
      refine ⟨by omega, fun i hi => ?_, fun i h1 h2 => ?_⟩
      · cases i with
        | zero => simpa using ha
        | succ i => simp only [List.getD_cons_succ]; exact i2 i (by omega)
      · cases i with
        | zero => omega
        | succ i => simp only [List.getD_cons_succ]; exact i3 i (by omega) (by omega)
    · have hnone : t.filter (· < off) = [] := by
        rw [List.filter_eq_nil_iff]
        intro x hx
        have := (List.pairwise_cons.mp hs).1 x hx
        simp; omega
      simp only [List.filter_cons, ha, decide_false, Bool.false_eq_true, if_false, hnone, List.length_nil, List.length_cons]
      refine ⟨by omega, fun i hi => by omega, fun i _ h2 => ?_⟩
      cases i with
      | zero => simp; omega
      | succ i =>
        simp only [List.getD_cons_succ]
        have := (List.pairwise_cons.mp hs).1 _ (getD_mem t i (by omega))
        omega

theorem lineStart_le_fs (nls : List Nat) (fs : Nat) (h : NlsOK nls fs) (line : Nat) : lineStart nls fs line ≤ fs := by
  unfold lineStart
  split
  · omega
  · split
    · omega
    · have := h.2 _ (getD_mem nls (line - 2) (by omega)); omega

theorem lineStart_mono (nls : List Nat) (fs : Nat) (h : NlsOK nls fs) (a b : Nat) (hab : a ≤ b) :
    lineStart nls fs a ≤ lineStart nls fs b := by
  by_cases he : a = b
  · subst he; exact Nat.le_refl _
  · have hb := lineStart_le_fs nls fs h b
    unfold lineStart at *
    by_cases ha2 : a < 2
    · simp only [ha2, if_true]; omega
    · have hb2 : ¬ b < 2 := by omega
      simp only [ha2, hb2, if_false] at hb ⊢
      by_cases hbl : b - 2 ≥ nls.length
      · simp only [hbl, if_true] at hb ⊢
        split
        · omega
        · have := h.2 _ (getD_mem nls (a - 2) (by omega)); omega
      · have hal : ¬ (a - 2 ≥ nls.length) := by omega
        simp only [hbl, hal, if_false]
        have := sorted_getD_lt nls h.1 (a - 2) (b - 2) (by omega) (by omega)
        omega

/-- an offset lies inside the line `atOffset` assigns to it -/
theorem atOffset_bounds (nls : List Nat) (fs : Nat) (h : NlsOK nls fs) (off : Nat) (hoff : off < fs) :
    lineStart nls fs (atOffset nls off) ≤ off ∧ off < lineStart nls fs (atOffset nls off + 1) := by
  obtain ⟨c1, c2, c3⟩ := countLt_spec nls h.1 off
  unfold atOffset lineStart
  generalize (nls.filter (· < off)).length = k at c1 c2 c3
  constructor
  · by_cases hk : k + 1 < 2
    · simp [hk]
    · simp only [hk, if_false]
      have : ¬ (k + 1 - 2 ≥ nls.length) := by omega
      simp only [this, if_false]
      have := c2 (k + 1 - 2) (by omega)
      omega
  · have : ¬ (k + 1 + 1 < 2) := by omega
    simp only [this, if_false]
    by_cases hk : k + 1 + 1 - 2 ≥ nls.length
    · simp only [hk, if_true]; exact hoff
    · simp only [hk, if_false]
      have := c3 (k + 1 + 1 - 2) (by omega) (by omega)
      omega

theorem atOffset_pos (nls : List Nat) (off : Nat) : 1 ≤ atOffset nls off := by unfold atOffset; omega

/-- the line an offset belongs to is unique -/
theorem atOffset_unique (nls : List Nat) (fs : Nat) (h : NlsOK nls fs) (c l : Nat) (hc : c < fs)
    (h1 : lineStart nls fs l ≤ c) (h2 : c < lineStart nls fs (l + 1)) : atOffset nls c = l := by
  obtain ⟨b1, b2⟩ := atOffset_bounds nls fs h c hc
  apply Classical.byContradiction
  intro hne
  by_cases hlt : l < atOffset nls c
  · have := lineStart_mono nls fs h (l + 1) (atOffset nls c) (by omega); omega
  · have := lineStart_mono nls fs h (atOffset nls c + 1) l (by omega); omega

theorem atOffset_mono (nls : List Nat) (a b : Nat) (hab : a ≤ b) : atOffset nls a ≤ atOffset nls b := by
  unfold atOffset
  have : (nls.filter (· < a)).length ≤ (nls.filter (· < b)).length := by
    induction nls with
    | nil => simp
    | cons x t ih =>
      simp only [List.filter_cons]
      by_cases hx : x < a
      · have hxb : x < b := by omega
        simp only [hx, hxb, decide_true, if_true, List.length_cons]; omega
      · by_cases hxb : x < b
        · simp only [hx, hxb, decide_false, decide_true, Bool.false_eq_true, if_false, if_true, List.length_cons]; omega
        · simp only [hx, hxb, decide_false, Bool.false_eq_true, if_false]; exact ih
  omega

/-- the `[start, end)` range of the line holding offset `c` -/
def rangeOf (nls : List Nat) (fs c : Nat) : Nat × Nat :=
  (lineStart nls fs (atOffset nls c), lineStart nls fs (atOffset nls c + 1))

theorem lineRanges_none (nls : List Nat) (fs : Nat) (cs : List Nat) :
    lineRanges nls fs cs Option.none = lineRanges nls fs cs (some 0) := by
  cases cs with
  | nil => rfl
  | cons off rest =>
    simp only [lineRanges]
    have : ¬ (some 0 = some (atOffset nls off)) := by
      have := atOffset_pos nls off; simp; omega
    simp [this]

theorem lineRanges_spec (nls : List Nat) (fs : Nat) (h : NlsOK nls fs) : ∀ (cs : List Nat) (p : Nat),
    SortedC cs → (∀ c, c ∈ cs → c < fs ∧ p ≤ atOffset nls c) →
    (∀ l, l ∈ lineRanges nls fs cs (some p) → ∃ c, c ∈ cs ∧ l = rangeOf nls fs c ∧ p < atOffset nls c) ∧
    (∀ c, c ∈ cs → atOffset nls c = p ∨ rangeOf nls fs c ∈ lineRanges nls fs cs (some p)) ∧
    LinesOK (lineRanges nls fs cs (some p)) := by
  intro cs
  induction cs with
  | nil => intro p _ _; simp [lineRanges, LinesOK]
  | cons off rest ih =>
    intro p hs hb
    have hrest := (List.pairwise_cons.mp hs).2
    have hoff := hb off List.mem_cons_self
    have hge : ∀ c, c ∈ rest → atOffset nls off ≤ atOffset nls c := by
      intro c hc
      have := (List.pairwise_cons.mp hs).1 c hc
      exact atOffset_mono nls off c (by omega)
    simp only [lineRanges]
    by_cases hp : some p = some (atOffset nls off)
    · simp only [hp, if_true]
      have hpe : p = atOffset nls off := by simpa using hp
      obtain ⟨i1, i2, i3⟩ := ih p hrest (fun c hc => ⟨(hb c (List.mem_cons_of_mem _ hc)).1, by rw [hpe]; exact hge c hc⟩)
      rw [← hp]
      refine ⟨fun l hl => ?_, fun c hc => ?_, i3⟩
      · obtain ⟨c, a, b, d⟩ := i1 l hl
        exact ⟨c, List.mem_cons_of_mem _ a, b, d⟩
      · rcases List.mem_cons.mp hc with e | e
        · subst e; exact Or.inl hpe.symm
        · exact i2 c e
    · simp only [hp, if_false]
      have hpl : p < atOffset nls off := by
        have : p ≠ atOffset nls off := fun e => hp (by rw [e])
        omega
      obtain ⟨i1, i2, i3⟩ := ih (atOffset nls off) hrest
        (fun c hc => ⟨(hb c (List.mem_cons_of_mem _ hc)).1, hge c hc⟩)
      refine ⟨fun l hl => ?_, fun c hc => ?_, ?_⟩
      · rcases List.mem_cons.mp hl with e | e
        · exact ⟨off, List.mem_cons_self, e, hpl⟩
        · obtain ⟨c, a, b, d⟩ := i1 l e
          exact ⟨c, List.mem_cons_of_mem _ a, b, by omega⟩
      · right
        rcases List.mem_cons.mp hc with e | e
        · subst e; exact List.mem_cons_self
        · rcases i2 c e with e2 | e2
          · have : rangeOf nls fs c = rangeOf nls fs off := by simp only [rangeOf, e2]
            rw [this]; exact List.mem_cons_self
          · exact List.mem_cons_of_mem _ e2
      · refine ⟨List.pairwise_cons.mpr ⟨fun l hl => ?_, i3.1⟩, fun l hl => ?_⟩
        · obtain ⟨c, _, b, d⟩ := i1 l hl
          rw [b]
          show lineStart nls fs (atOffset nls off + 1) ≤ lineStart nls fs (atOffset nls c)
          exact lineStart_mono nls fs h (atOffset nls off + 1) (atOffset nls c) (by omega)
        · rcases List.mem_cons.mp hl with e | e
          · rw [e]
            show lineStart nls fs (atOffset nls off) ≤ lineStart nls fs (atOffset nls off + 1)
            exact lineStart_mono nls fs h (atOffset nls off) (atOffset nls off + 1) (by omega)
          · exact i3.2 l e


/-! ### `andLineMatchTree.matches` after its children matched -/

theorem newlineOffsets_ok (text : List Nat) : NlsOK (newlineOffsets text) text.length := by
  unfold newlineOffsets
  refine ⟨List.Pairwise.filter _ List.pairwise_lt_range, fun x hx => ?_⟩
  simp only [List.mem_filter, List.mem_range] at hx
  exact hx.1

theorem fewestIdx_bound : ∀ (l : List (List Nat)) (ix minc best : Nat),
    fewestIdx l ix minc best = best ∨ (ix ≤ fewestIdx l ix minc best ∧ fewestIdx l ix minc best < ix + l.length) := by
  intro l
  induction l with
  | nil => intro ix minc best; exact Or.inl rfl
  | cons c rest ih =>
    intro ix minc best
    simp only [fewestIdx]
    by_cases hc : c.length < minc
    · simp only [hc, if_true]
      rcases ih (ix + 1) c.length ix with h | h
      · right; rw [h]; simp only [List.length_cons]; omega
      · right; simp only [List.length_cons]; omega
    · simp only [hc, if_false]
      rcases ih (ix + 1) minc best with h | h
      · exact Or.inl h
      · right; simp only [List.length_cons]; omega

theorem removeAt_length {α} : ∀ (l : List α) (i : Nat), i < l.length → (removeAt l i).length + 1 = l.length := by
  intro l
  induction l with
  | nil => intro i h; simp at h
  | cons a t ih =>
    intro i h
    cases i with
    | zero => simp [removeAt]
    | succ i => simp only [removeAt, List.length_cons] at h ⊢; have := ih i (by omega); omega

theorem removeAt_subset {α} : ∀ (l : List α) (i : Nat) (x : α), x ∈ removeAt l i → x ∈ l := by
  intro l
  induction l with
  | nil => intro i x h; simp [removeAt] at h
  | cons a t ih =>
    intro i x h
    cases i with
    | zero => simp only [removeAt] at h; exact List.mem_cons_of_mem _ h
    | succ i =>
      simp only [removeAt] at h
      rcases List.mem_cons.mp h with e | e
      · subst e; exact List.mem_cons_self
      · exact List.mem_cons_of_mem _ (ih i x e)

theorem mem_removeAt_or : ∀ (l : List (List Nat)) (i : Nat) (x : List Nat), x ∈ l →
    x ∈ removeAt l i ∨ x = l.getD i [] := by
  intro l
  induction l with
  | nil => intro i x h; simp at h
  | cons a t ih =>
    intro i x h
    cases i with
    | zero =>
      simp only [removeAt, List.getD_cons_zero]
      rcases List.mem_cons.mp h with e | e
      · exact Or.inr e
      · exact Or.inl e
    | succ i =>
      simp only [removeAt, List.getD_cons_succ]
      rcases List.mem_cons.mp h with e | e
      · subst e; exact Or.inl List.mem_cons_self
      · rcases ih i x e with e2 | e2
        · exact Or.inl (List.mem_cons_of_mem _ e2)
        · exact Or.inr e2

theorem getD_mem_lists (l : List (List Nat)) (i : Nat) (h : i < l.length) : l.getD i [] ∈ l := by
  rw [List.getD_eq_getElem?_getD, List.getElem?_eq_getElem h]; simp

/-- **the same-line conjunct**: once every child (a content substring leaf) has verified candidates, the shortcut answers
    `matchesFound` iff some line of the document holds a candidate of EVERY child -/
theorem sameLineOf_spec (ctx : Ctx) (doc : Nat) (cands : List (List Nat)) (hne : cands ≠ [])
    (hs : ∀ c, c ∈ cands → SortedC c)
    (hb : ∀ c, c ∈ cands → ∀ x, x ∈ c → x < (ctx.text false doc).length) :
    sameLineOf ctx doc (some cands) = St.found ↔
      ∃ line, ∀ c, c ∈ cands → ∃ x, x ∈ c ∧ atOffset (newlineOffsets (ctx.text false doc)) x = line := by
  have hnls := newlineOffsets_ok (ctx.text false doc)
  generalize hn : newlineOffsets (ctx.text false doc) = nls at hnls
  generalize hfs : (ctx.text false doc).length = fs at hnls hb
  have hfew : fewestIdx cands 0 (maxU32 * maxU32) 0 < cands.length := by
    have hpos : 0 < cands.length := by cases cands with
      | nil => exact absurd rfl hne
      | cons _ _ => simp
    rcases fewestIdx_bound cands 0 (maxU32 * maxU32) 0 with h | h
    · rw [h]; exact hpos
    · omega
  generalize hfi : fewestIdx cands 0 (maxU32 * maxU32) 0 = few at hfew
  have hfm : cands.getD few [] ∈ cands := getD_mem_lists cands few hfew
  obtain ⟨r1, r2, r3⟩ := lineRanges_spec nls fs hnls (cands.getD few []) 0 (hs _ hfm)
    (fun c hc => ⟨hb _ hfm c hc, Nat.zero_le _⟩)
  have hlen := removeAt_length cands few hfew
  have hothers : ∀ c, c ∈ removeAt cands few → SortedC c := fun c hc => hs c (removeAt_subset cands few c hc)
  have key := lineLoop_spec ((lineRanges nls fs (cands.getD few []) (some 0)).length + 1)
    (lineRanges nls fs (cands.getD few []) (some 0)) (removeAt cands few) (by omega) r3 hothers
  rw [hlen] at key
  have e : sameLineOf ctx doc (some cands) =
      St.pred (lineLoop ((lineRanges nls fs (cands.getD few []) (some 0)).length + 1)
        (lineRanges nls fs (cands.getD few []) (some 0)) (removeAt cands few) cands.length) := by
    simp only [sameLineOf, hn, hfs, hfi, lineRanges_none]
  rw [e]
  have hpred : ∀ b : Bool, St.pred b = St.found ↔ b = true := by intro b; cases b <;> simp [St.pred]
  rw [hpred, key]
  constructor
  · intro ⟨l, hl, hall⟩
    obtain ⟨c0, hc0, hl0, _⟩ := r1 l hl
    refine ⟨atOffset nls c0, fun c hc => ?_⟩
    rcases mem_removeAt_or cands few c hc with h1 | h1
    · obtain ⟨x, hx, a, b⟩ := hall c h1
      rw [hl0] at a b
      exact ⟨x, hx, atOffset_unique nls fs hnls x _ (hb c hc x hx) a b⟩
    · rw [h1]; exact ⟨c0, hc0, rfl⟩
  · intro ⟨line, hall⟩
    obtain ⟨x0, hx0, hl0⟩ := hall _ hfm
    have hmem : rangeOf nls fs x0 ∈ lineRanges nls fs (cands.getD few []) (some 0) := by
      rcases r2 x0 hx0 with h | h
      · have := atOffset_pos nls x0; omega
      · exact h
    refine ⟨rangeOf nls fs x0, hmem, fun c hc => ?_⟩
    have hc' := removeAt_subset cands few c hc
    obtain ⟨x, hx, hlx⟩ := hall c hc'
    obtain ⟨b1, b2⟩ := atOffset_bounds nls fs hnls x (hb c hc' x hx)
    refine ⟨x, hx, ?_, ?_⟩
    · show lineStart nls fs (atOffset nls x0) ≤ x
      rw [hl0, ← hlx]; exact b1
    · show x < lineStart nls fs (atOffset nls x0 + 1)
      rw [hl0, ← hlx]; exact b2

end ZoektModel.C01
