/-
C01 — L9: `extract_superset`: whatever the regexp matches, the extracted literal tree is satisfied inside the match (and
a `singleLine` extraction only comes from matches without a newline).
-/
import ZoektModel.C01.RegexSem
namespace ZoektModel.C01

theorem NoNL.append {s : List Nat} {i k j : Nat} (h1 : NoNL s i k) (h2 : NoNL s k j) : NoNL s i j := by
  intro x a b
  by_cases hx : x < k
  · exact h1 x a hx
  · exact h2 x (by omega) b

mutual
theorem Lit.inSpan_mono (s : List Nat) : (t : Lit) → ∀ i j i' j', i' ≤ i → j ≤ j' → t.inSpan s i j → t.inSpan s i' j'
  | .brute, _, _, _, _, _, _, _ => trivial
  | .none, _, _, _, _, _, _, h => h
  | .sub pat cs, i, j, i', j', h1, h2, ⟨o, a, b, c⟩ => ⟨o, by omega, by omega, c⟩
  | .and ch, i, j, i', j', h1, h2, h => Lit.allInSpan_mono s ch i j i' j' h1 h2 h
  | .andLine ch, i, j, i', j', h1, h2, ⟨a, b, ha, hb, hn, hall⟩ => ⟨a, b, by omega, by omega, hn, hall⟩
  | .or ch, i, j, i', j', h1, h2, h => Lit.anyInSpan_mono s ch i j i' j' h1 h2 h
theorem Lit.allInSpan_mono (s : List Nat) : (ch : List Lit) → ∀ i j i' j', i' ≤ i → j ≤ j' →
    Lit.allInSpan s ch i j → Lit.allInSpan s ch i' j'
  | [], _, _, _, _, _, _, _ => trivial
  | c :: cs, i, j, i', j', h1, h2, h =>
    ⟨Lit.inSpan_mono s c i j i' j' h1 h2 h.1, Lit.allInSpan_mono s cs i j i' j' h1 h2 h.2⟩
theorem Lit.anyInSpan_mono (s : List Nat) : (ch : List Lit) → ∀ i j i' j', i' ≤ i → j ≤ j' →
    Lit.anyInSpan s ch i j → Lit.anyInSpan s ch i' j'
  | [], _, _, _, _, _, _, h => h
  | c :: cs, i, j, i', j', h1, h2, h => by
    rcases h with h | h
    · exact Or.inl (Lit.inSpan_mono s c i j i' j' h1 h2 h)
    · exact Or.inr (Lit.anyInSpan_mono s cs i j i' j' h1 h2 h)
end

theorem allInSpan_filter (s : List Nat) (p : Lit → Bool) : ∀ (ch : List Lit) (i j : Nat),
    Lit.allInSpan s ch i j → Lit.allInSpan s (ch.filter p) i j := by
  intro ch
  induction ch with
  | nil => intro i j h; exact h
  | cons c cs ih =>
    intro i j h
    simp only [List.filter_cons]
    split
    · exact ⟨h.1, ih i j h.2⟩
    · exact ih i j h.2

/-- what the induction carries for one match -/
def MatchOK (s : List Nat) (e : Ext) (i j : Nat) : Prop :=
  (i ≤ j ∧ j ≤ s.length) ∧ e.tree.inSpan s i j ∧ (e.singleLine = true → NoNL s i j)

theorem starM_ok (s : List Nat) (P : Nat → Nat → Prop) (t : Lit) (sl : Bool)
    (hP : ∀ a b, P a b → (a ≤ b ∧ b ≤ s.length) ∧ t.inSpan s a b ∧ (sl = true → NoNL s a b)) :
    ∀ k j, StarM P k j → k ≤ j ∧ (k ≤ s.length → j ≤ s.length) ∧ (sl = true → NoNL s k j) := by
  intro k j h
  induction h with
  | refl i => exact ⟨Nat.le_refl _, fun h => h, fun _ x a b => by omega⟩
  | step i m j hp _ ih =>
    obtain ⟨⟨a1, a2⟩, _, a4⟩ := hP i m hp
    obtain ⟨b1, b2, b3⟩ := ih
    exact ⟨by omega, fun _ => b2 a2, fun hs => (a4 hs).append (b3 hs)⟩

theorem toLowerRune_eq_nl (x : Nat) (h : toLowerRune x = 10) : x = 10 := by
  unfold toLowerRune at h
  split at h
  · omega
  · split at h
    · omega
    · split at h
      · omega
      · split at h
        · omega
        · split at h
          · omega
          · split at h
            · omega
            · split at h
              · omega
              · exact h

theorem lit_prefix_cs (rs s : List Nat) (i : Nat) (hj : i + rs.length ≤ s.length)
    (h : ∀ k, k < rs.length → s.getD (i + k) 0 = rs.getD k 0) : rs.isPrefixOf (s.drop i) = true := by
  rw [List.isPrefixOf_iff_prefix, List.prefix_iff_eq_take]
  apply List.ext_getElem
  · simp; omega
  · intro n h1 h2
    have := h n h1
    simp only [List.getD_eq_getElem?_getD] at this
    rw [List.getElem?_eq_getElem (by omega), List.getElem?_eq_getElem h1] at this
    simp at this
    simp [this]

theorem lit_prefix_ci (rs s : List Nat) (i : Nat) (hj : i + rs.length ≤ s.length)
    (h : ∀ k, k < rs.length → toLowerRune (s.getD (i + k) 0) = toLowerRune (rs.getD k 0)) :
    (rs.map toLowerRune).isPrefixOf ((s.drop i).map toLowerRune) = true := by
  rw [List.isPrefixOf_iff_prefix, List.prefix_iff_eq_take]
  apply List.ext_getElem
  · simp; omega
  · intro n h1 h2
    have h1' : n < rs.length := by simpa using h1
    have := h n h1'
    simp only [List.getD_eq_getElem?_getD] at this
    rw [List.getElem?_eq_getElem (by omega), List.getElem?_eq_getElem h1'] at this
    simp at this
    simp [this]


theorem repM_ok (s : List Nat) (P : Nat → Nat → Prop) (t : Lit) (sl : Bool)
    (hP : ∀ a b, P a b → (a ≤ b ∧ b ≤ s.length) ∧ t.inSpan s a b ∧ (sl = true → NoNL s a b)) :
    ∀ n k j, RepM P n k j → k ≤ j ∧ (k ≤ s.length → j ≤ s.length) ∧ (sl = true → NoNL s k j) := by
  intro n
  induction n with
  | zero => intro k j h; simp only [RepM] at h; subst h; exact ⟨Nat.le_refl _, fun h => h, fun _ x a b => by omega⟩
  | succ n ih =>
    intro k j h
    obtain ⟨m, hp, hr⟩ := h
    obtain ⟨⟨a1, a2⟩, _, a4⟩ := hP k m hp
    obtain ⟨b1, b2, b3⟩ := ih m j hr
    exact ⟨by omega, fun _ => b2 a2, fun hs => (a4 hs).append (b3 hs)⟩

theorem matchOK_brute (s : List Nat) (i j : Nat) (h : i ≤ j ∧ j ≤ s.length) : MatchOK s ⟨.brute, false, false⟩ i j :=
  ⟨h, trivial, fun h => by simp at h⟩

mutual
/-- **`extract_superset`** (with the span and the `singleLine` guarantee) -/
theorem Rx.ext_ok (ci : Bool) (s : List Nat) : (r : Rx) → ∀ i j, r.M ci s i j → MatchOK s (r.extract (!ci)) i j
  | .lit rs fold, i, j, h => by
    obtain ⟨h1, h2, h3⟩ := h
    simp only [Rx.extract]
    by_cases hl : rs.length ≥ 3
    · simp only [hl, if_true]
      refine ⟨⟨by omega, h2⟩, ⟨i, Nat.le_refl _, by omega, ?_⟩, fun hs x a b => ?_⟩
      · unfold subOcc
        cases hf : (fold || ci) with
        | true =>
          have : (!fold && !ci) = false := by cases fold <;> cases ci <;> simp_all
          simp only [this, Bool.false_eq_true, if_false]
          exact lit_prefix_ci rs s i (by omega) (fun k hk => by have := h3 k hk; simpa [hf] using this)
        | false =>
          have : (!fold && !ci) = true := by cases fold <;> cases ci <;> simp_all
          simp only [this, if_true]
          exact lit_prefix_cs rs s i (by omega) (fun k hk => by have := h3 k hk; simpa [hf] using this)
      · -- a newline inside the match would be a newline of the literal
        intro hx
        have hk : x - i < rs.length := by omega
        have h3' := h3 (x - i) hk
        have e : i + (x - i) = x := by omega
        rw [e, hx] at h3'
        have hmem : rs.getD (x - i) 0 ∈ rs := by
          rw [List.getD_eq_getElem?_getD, List.getElem?_eq_getElem hk]; simp
        have hr10 : rs.getD (x - i) 0 = 10 := by
          cases hf : (fold || ci) with
          | true =>
            simp only [hf, if_true] at h3'
            have : toLowerRune (10 : Nat) = 10 := by decide
            rw [this] at h3'
            exact toLowerRune_eq_nl _ h3'.symm
          | false => simp only [hf, Bool.false_eq_true, if_false] at h3'; exact h3'.symm
        rw [hr10] at hmem
        have : rs.contains 10 = true := by simpa using hmem
        simp [this] at hs
        exact hs hmem
    · simp only [hl, if_false]; exact matchOK_brute s i j ⟨by omega, h2⟩
  | .cls _, i, j, h => by simp only [Rx.extract]; exact matchOK_brute s i j ⟨by have := h.1; omega, by have := h.1; have := h.2.1; omega⟩
  | .anyNL, i, j, h => by simp only [Rx.extract]; exact matchOK_brute s i j ⟨by have := h.1; omega, by have := h.1; have := h.2; omega⟩
  | .anyNotNL, i, j, h => by simp only [Rx.extract]; exact matchOK_brute s i j ⟨by have := h.1; omega, by have := h.1; have := h.2.1; omega⟩
  | .beginLine, i, j, h => by simp only [Rx.extract]; exact matchOK_brute s i j ⟨by have := h.1; omega, h.2.1⟩
  | .endLine, i, j, h => by simp only [Rx.extract]; exact matchOK_brute s i j ⟨by have := h.1; omega, h.2.1⟩
  | .beginText, i, j, h => by simp only [Rx.extract]; exact matchOK_brute s i j ⟨by have := h.1; omega, by have := h.1; have := h.2; omega⟩
  | .endText, i, j, h => by simp only [Rx.extract]; exact matchOK_brute s i j ⟨by have := h.1; omega, by have := h.1; have := h.2; omega⟩
  | .wordB, i, j, h => by simp only [Rx.extract]; exact matchOK_brute s i j ⟨by have := h.1; omega, h.2.1⟩
  | .noWordB, i, j, h => by simp only [Rx.extract]; exact matchOK_brute s i j ⟨by have := h.1; omega, h.2.1⟩
  | .empty, i, j, h => by simp only [Rx.extract]; exact matchOK_brute s i j ⟨by have := h.1; omega, h.2⟩
  | .noMatch, _, _, h => absurd h (by simp [Rx.M])
  | .cap r, i, j, h => by simp only [Rx.extract]; exact Rx.ext_ok ci s r i j h
  | .star r, i, j, h => by
    obtain ⟨hi, hst⟩ := h
    have hP := fun a b (hab : r.M ci s a b) => Rx.ext_ok ci s r a b hab
    have key := starM_ok s (r.M ci s) (r.extract (!ci)).tree (r.extract (!ci)).singleLine hP i j hst
    have hspan : i ≤ j ∧ j ≤ s.length := ⟨key.1, key.2.1 hi⟩
    cases r with
    | anyNotNL =>
      simp only [Rx.extract]
      refine ⟨hspan, trivial, fun _ => ?_⟩
      -- every step consumes one rune that is not a newline
      have : ∀ k j, StarM (Rx.anyNotNL.M ci s) k j → NoNL s k j := by
        intro k j hs
        induction hs with
        | refl _ => intro x a b; omega
        | step a m b hp _ ih =>
          obtain ⟨e1, _, e3⟩ := hp
          intro x xa xb
          by_cases hx : x = a
          · subst hx; exact e3
          · exact ih x (by omega) xb
      exact this i j hst
    | _ => simp only [Rx.extract]; exact matchOK_brute s i j hspan
  | .plus r, i, j, h => by
    obtain ⟨k, h1, hst⟩ := h
    simp only [Rx.extract]
    have hP := fun a b (hab : r.M ci s a b) => Rx.ext_ok ci s r a b hab
    obtain ⟨⟨a1, a2⟩, a3, a4⟩ := hP i k h1
    obtain ⟨b1, b2, b3⟩ := starM_ok s (r.M ci s) _ _ hP k j hst
    exact ⟨⟨by omega, b2 a2⟩, Lit.inSpan_mono s _ i k i j (Nat.le_refl _) b1 a3, fun hs => (a4 hs).append (b3 hs)⟩
  | .quest r, i, j, h => by
    simp only [Rx.extract]
    rcases h with ⟨e, hl⟩ | h
    · exact matchOK_brute s i j ⟨by omega, hl⟩
    · exact matchOK_brute s i j (Rx.ext_ok ci s r i j h).1
  | .rep r mn mx, i, j, h => by
    obtain ⟨hi, n, hn, _, hrep⟩ := h
    have hP := fun a b (hab : r.M ci s a b) => Rx.ext_ok ci s r a b hab
    obtain ⟨c1, c2, c3⟩ := repM_ok s (r.M ci s) _ _ hP n i j hrep
    have hspan : i ≤ j ∧ j ≤ s.length := ⟨c1, c2 hi⟩
    simp only [Rx.extract]
    by_cases h1 : mn = 1
    · simp only [h1, if_true]
      cases n with
      | zero => omega
      | succ n =>
        obtain ⟨k, hp, hr⟩ := hrep
        obtain ⟨⟨a1, a2⟩, a3, a4⟩ := hP i k hp
        obtain ⟨b1, _, _⟩ := repM_ok s (r.M ci s) _ _ hP n k j hr
        exact ⟨hspan, Lit.inSpan_mono s _ i k i j (Nat.le_refl _) b1 a3, c3⟩
    · simp only [h1, if_false]
      by_cases h2 : mn > 1
      · simp only [h2, if_true]
        cases n with
        | zero => omega
        | succ n =>
          obtain ⟨k, hp, hr⟩ := hrep
          obtain ⟨⟨a1, a2⟩, a3, a4⟩ := hP i k hp
          obtain ⟨b1, _, _⟩ := repM_ok s (r.M ci s) _ _ hP n k j hr
          exact ⟨hspan, Lit.inSpan_mono s _ i k i j (Nat.le_refl _) b1 a3, c3⟩
      · simp only [h2, if_false]; exact matchOK_brute s i j hspan
  | .cat rs, i, j, h => by
    obtain ⟨hspan, hall, hsl⟩ := Rxs.cat_ok ci s rs i j h
    simp only [Rx.extract]
    generalize Rxs.extractAll (!ci) rs = ea at hall hsl
    obtain ⟨qs, isEq, sl⟩ := ea
    simp only at hall hsl
    simp only []
    have hf := allInSpan_filter s (fun q => !q.isBrute) qs i j hall
    generalize qs.filter (fun q => !q.isBrute) = newQs at hf
    match newQs, hf with
    | [], _ => exact ⟨hspan, trivial, hsl⟩
    | [q], hf => exact ⟨hspan, hf.1, hsl⟩
    | q1 :: q2 :: rest, hf =>
      simp only []
      cases sl with
      | true => simp only [if_true]; exact ⟨hspan, ⟨i, j, Nat.le_refl _, Nat.le_refl _, hsl rfl, hf⟩, hsl⟩
      | false => simp only [Bool.false_eq_true, if_false]; exact ⟨hspan, hf, hsl⟩
  | .alt rs, i, j, h => by
    obtain ⟨hspan, hany⟩ := Rxs.alt_ok ci s rs i j h
    simp only [Rx.extract]
    generalize Rxs.extractAll (!ci) rs = ea at hany
    obtain ⟨qs, isEq, sl⟩ := ea
    simp only at hany
    simp only []
    by_cases hb : qs.any Lit.isBrute = true
    · simp only [hb, if_true]; exact ⟨hspan, trivial, fun h => by simp at h⟩
    · simp only [hb, Bool.false_eq_true, if_false]
      by_cases he : qs.isEmpty = true
      · have : qs = [] := by simpa using he
        subst this
        exact absurd hany (by simp [Lit.anyInSpan])
      · simp only [he, Bool.false_eq_true, if_false]
        exact ⟨hspan, hany, fun h => by simp at h⟩
theorem Rxs.cat_ok (ci : Bool) (s : List Nat) : (rs : Rxs) → ∀ i j, Rxs.MCat ci s rs i j →
    (i ≤ j ∧ j ≤ s.length) ∧ Lit.allInSpan s (Rxs.extractAll (!ci) rs).1 i j ∧
    ((Rxs.extractAll (!ci) rs).2.2 = true → NoNL s i j)
  | .nil, i, j, h => by
    simp only [Rxs.MCat] at h
    simp only [Rxs.extractAll]
    exact ⟨⟨by omega, h.2⟩, trivial, fun _ x a b => by omega⟩
  | .cons r t, i, j, h => by
    obtain ⟨k, h1, h2⟩ := h
    obtain ⟨⟨a1, a2⟩, a3, a4⟩ := Rx.ext_ok ci s r i k h1
    obtain ⟨⟨b1, b2⟩, b3, b4⟩ := Rxs.cat_ok ci s t k j h2
    simp only [Rxs.extractAll]
    refine ⟨⟨by omega, b2⟩, ⟨Lit.inSpan_mono s _ i k i j (Nat.le_refl _) b1 a3,
      Lit.allInSpan_mono s _ k j i j a1 (Nat.le_refl _) b3⟩, fun hs => ?_⟩
    simp only [Bool.and_eq_true] at hs
    exact (a4 hs.1).append (b4 hs.2)
theorem Rxs.alt_ok (ci : Bool) (s : List Nat) : (rs : Rxs) → ∀ i j, Rxs.MAlt ci s rs i j →
    (i ≤ j ∧ j ≤ s.length) ∧ Lit.anyInSpan s (Rxs.extractAll (!ci) rs).1 i j
  | .nil, _, _, h => absurd h (by simp [Rxs.MAlt])
  | .cons r t, i, j, h => by
    simp only [Rxs.extractAll]
    rcases h with h | h
    · obtain ⟨a1, a3, _⟩ := Rx.ext_ok ci s r i j h
      exact ⟨a1, Or.inl a3⟩
    · obtain ⟨b1, b3⟩ := Rxs.alt_ok ci s t i j h
      exact ⟨b1, Or.inr b3⟩
end

end ZoektModel.C01
