import ZoektModel.Basic.Proto
namespace ZoektModel.C21
/-- stub: no model driver for C21 yet -/
def main : IO Unit := ZoektModel.Proto.runLines (fun _ => ZoektModel.Proto.badCase "no model driver for C21")
end ZoektModel.C21
