import ZoektModel.Basic.Proto
import ZoektModel.C21.Spec
namespace ZoektModel.C21
open ZoektModel ZoektModel.Proto

/-! line protocol

shard <shardMax> <repoMax> <cancelAt | -> <full|files> <docs>      docs := doc ("," doc)* ; doc := repo:skip:cand:(count|x)
   impl (full):  files=<ids> considered=<n> skipped=<n> shardskipped=<0|1>
   impl (files): files=<ids>
total <totalMax> <slack> <counts> <sent>
   impl: k=<shards returned> matches=<aggregated MatchCount>
-/

def parseDoc (idx : Nat) (s : String) : Option Doc :=
  match s.splitOn ":" with
  | [r, sk, c, n] => do
    let fm ← if n == "x" then some none else n.toNat?.map fun k => some (FM.mk idx k)
    pure ⟨← r.toNat?, ← bool? sk, ← bool? c, fm⟩
  | _ => none

def parseDocs (s : String) : Option (List Doc) :=
  if s == "-" then some [] else
  let parts := s.splitOn ","
  (parts.zip (List.range parts.length)).mapM fun p => parseDoc p.2 p.1

def parseCancel (s : String) : Option (Option Nat) :=
  if s == "-" then some none else s.toNat?.map some

def kv (key : String) (s : String) : Option String :=
  if s.startsWith (key ++ "=") then some (s.drop (key.length + 1)).toString else none

def handleShard (shardMax repoMax : Nat) (cancelAt : Option Nat) (full : Bool) (docs : List Doc) (impl : String) : String :=
  let (out, skippedShard) := searchShard shardMax repoMax cancelAt docs
  let ids := showNatList (out.files.map (·.id))
  let model :=
    if full then s!"files={ids} considered={out.considered} skipped={out.skipped} shardskipped={showBool skippedShard}"
    else s!"files={ids}"
  let unlimited := docs.filterMap fun d => if d.skip then none else d.fm
  let implFiles : Option (List Nat × Option Nat) :=
    match fields impl with
    | [a] => do pure (← natList? (← kv "files" a), none)
    | [a, b, _, _] => do pure (← natList? (← kv "files" a), some (← (← kv "considered" b).toNat?))
    | _ => none
  match implFiles with
  | none => badCase "impl output"
  | some (ids, considered) =>
    -- the implementation's files, as FileMatches: the harness has already compared each returned FileMatch with the
    -- unlimited one field by field (Go oracle); here identity is the document and its match count
    let lim := ids.filterMap fun i => (docs[i]?).bind (·.fm)
    if lim.length != ids.length then specFail model "returned-a-file-the-unlimited-search-does-not"
    else if !(checkShard unlimited lim) then specFail model "not-a-sublist"
    else if !(checkPrompt cancelAt lim (considered.getD lim.length)) then specFail model "not-prompt"
    else answer model

def handleTotal (totalMax slack : Nat) (counts sent : List Nat) (_impl : String) : String :=
  let cf := fun i => counts.getD i 0
  let model := s!"k={sent.length} matches={(sent.map cf).sum}"
  if !(checkTotal counts.length totalMax cf sent slack) then specFail model "total-limit"
  else
    -- the observed behaviour must be a behaviour of the model: replay it as a schedule
    -- (hand out shards as late as possible: just before their result is received)
    let sched : List Ev := (List.range sent.length).flatMap (fun _ => [Ev.dispatch]) ++ sent.map Ev.recv
    match ssRun counts.length totalMax cf {} sched with
    | none => specFail model "total-limit-schedule"
    | some s => if s.sent == sent then answer model else specFail model "total-limit-schedule"

def handle (line : String) : String :=
  let (inp, impl) := splitCase line
  match fields inp with
  | ["shard", sm, rm, ca, mode, ds] =>
    match sm.toNat?, rm.toNat?, parseCancel ca, parseDocs ds with
    | some shardMax, some repoMax, some cancelAt, some docs =>
      handleShard shardMax repoMax cancelAt (mode == "full") docs impl
    | _, _, _, _ => badCase "fields"
  | ["total", tm, sl, cs, se] =>
    match tm.toNat?, sl.toNat?, natList? cs, natList? se with
    | some totalMax, some slack, some counts, some sent => handleTotal totalMax slack counts sent impl
    | _, _, _, _ => badCase "fields"
  | _ => badCase "op"

def main : IO Unit := runLines handle
end ZoektModel.C21
