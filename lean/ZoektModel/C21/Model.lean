/-
C21 — model of the document loop of `indexData.Search` (index/eval.go) with `ShardMaxMatchCount`,
`ShardRepoMaxMatchCount` and the per-iteration cancellation poll, and of `streamSearch`'s `TotalMaxMatchCount`
stop (search/shards.go), over an *abstract per-document evaluation*.

A document is reduced to what the loop reads: its repository (`d.repos[doc]`), whether one of the three
`continue`s before the repository limit fires (tombstoned repository, other tenant, tombstoned file), whether the
match tree may propose it (`mt.nextDoc()` never jumps over a candidate), and the outcome of evaluating it:
`none` = `matchesNone`, `some fm` = the `FileMatch` that `evalMatchTree`/`gatherMatches`/`fill*Matches`/`scoreFile`/
`gatherBranches` build for it.  That outcome is a function of the document alone — the limits and the cancellation
flag are not read anywhere below `cp.setDocument` — which is the one modelling assumption of C21; it is validated
end to end by the harness (limited vs unlimited real searches must return *identical* FileMatches).
-/
import ZoektModel.Basic.Bytes
namespace ZoektModel.C21

/-- a `FileMatch`: `id` stands for every field; `count` = `len(LineMatches)` + Σ `len(ChunkMatches[i].Ranges)` -/
structure FM where
  id : Nat
  count : Nat
  deriving Repr, DecidableEq

structure Doc where
  repo : Nat
  skip : Bool
  cand : Bool
  fm : Option FM
  deriving Repr, DecidableEq

structure Opts where
  shardMax : Nat      -- ShardMaxMatchCount after SetDefaults (0 → 100000); values ≤ 0 after that = no limit
  repoMax : Nat       -- ShardRepoMaxMatchCount
  cancelAt : Option Nat  -- `some k`: the first k polls of ctx.Done() see a live context, all later ones a cancelled one
  deriving Repr, DecidableEq

/-- `SearchOptions.SetDefaults` for the shard limit -/
def setDefaults (shardMax : Nat) : Nat := if shardMax = 0 then 100000 else shardMax

/-- loop state that flows forward -/
structure St where
  lastRepo : Nat := 0
  repoCount : Nat := 0
  matchCount : Nat := 0
  polls : Nat := 0          -- polls of ctx.Done() made so far
  canceled : Bool := false  -- the `canceled` variable of the current iteration
  deriving Repr, DecidableEq

/-- what the search returns (files in order) and the statistics the loop maintains -/
structure Out where
  files : List FM := []
  considered : Nat := 0   -- Stats.FilesConsidered
  skipped : Nat := 0      -- Stats.FilesSkipped
  deriving Repr, DecidableEq

/-- `select { case <-ctx.Done(): … default: }` -/
def poll (o : Opts) (st : St) : St :=
  { st with polls := st.polls + 1,
            canceled := match o.cancelAt with | none => false | some k => decide (k ≤ st.polls) }

/-- `if lastRepoID != d.repos[nextDoc] { lastRepoID = d.repos[nextDoc]; repoMatchCount = 0 }` -/
def trackRepo (st : St) (d : Doc) : St :=
  if st.lastRepo ≠ d.repo then { st with lastRepo := d.repo, repoCount := 0 } else st

/-- `canceled || (res.Stats.MatchCount >= opts.ShardMaxMatchCount && opts.ShardMaxMatchCount > 0)` -/
def mustStop (o : Opts) (st : St) : Bool :=
  st.canceled || (decide (o.shardMax > 0) && decide (st.matchCount ≥ o.shardMax))

/-- `repoMatchCount += …; res.Stats.MatchCount += …` -/
def addMatch (st : St) (f : FM) : St :=
  { st with repoCount := st.repoCount + f.count, matchCount := st.matchCount + f.count }

/-- The loop `nextFileMatch: for { … }` from the point where the iteration's poll has been made.
    `proposing = true`: still below `mt.nextDoc()` (non-candidates are jumped over);
    `proposing = false`: inside the scan `for ; nextDoc < docCount; nextDoc++`.
    The list is the documents from the current `nextDoc` on. -/
def run (o : Opts) : St → Bool → List Doc → Out
  | _, _, [] => {}                                   -- nextDoc >= docCount: break
  | st, proposing, d :: r =>
    if proposing && !d.cand then run o st true r     -- mt.nextDoc() is beyond this document
    else if d.skip then run o st false r             -- tombstone / tenant / file tombstone: continue
    else if o.repoMax > 0 && st.repoCount ≥ o.repoMax && d.repo = st.lastRepo then
      let out := run o st false r                    -- res.Stats.FilesSkipped++; continue
      { out with skipped := out.skipped + 1 }
    else
      -- lastDoc = nextDoc; track lastRepoID
      if mustStop o (trackRepo st d) then
        { skipped := r.length + 1 }                  -- FilesSkipped += docCount - nextDoc; break
      else
        match d.fm with
        | none =>                                    -- matchesNone: continue nextFileMatch
          let out := run o (poll o (trackRepo st d)) true r
          { out with considered := out.considered + 1 }
        | some f =>
          let out := run o (poll o (addMatch (trackRepo st d) f)) true r
          { out with files := f :: out.files, considered := out.considered + 1 }

/-- `indexData.Search` after `simplify`/`newMatchTree`: the entry poll, then the loop.
    Returns the output and whether the shard was skipped because the context was already done. -/
def searchShard (shardMax repoMax : Nat) (cancelAt : Option Nat) (docs : List Doc) : Out × Bool :=
  let o : Opts := ⟨setDefaults shardMax, repoMax, cancelAt⟩
  if docs.isEmpty then ({}, false)                   -- len(d.fileNameIndex) == 0
  else
    let st0 := poll o {}
    if st0.canceled then ({}, true)                  -- res.Stats.ShardsSkipped++
    else (run o (poll o st0) true docs, false)

/-! ### streamSearch: TotalMaxMatchCount

The main loop of `streamSearch` either hands the next shard to a worker or receives a finished shard result.
`stop()` (close the work channel) is called when the last shard has been handed out, when a result carries an
error, or when the accumulated `Stats.MatchCount` exceeds `TotalMaxMatchCount`.  Results of shards already handed
out are still received and sent on. -/

inductive Ev where
  | dispatch        -- `case work <- next`
  | recv (i : Nat)  -- `case r := <-results` delivering the result of shard `i`
  deriving Repr, DecidableEq

structure SS where
  next : Nat := 0            -- index of the next shard to hand out
  stopped : Bool := false    -- `work == nil`
  inflight : List Nat := []  -- handed out, result not yet received
  total : Nat := 0           -- totalMatchCount
  sent : List Nat := []      -- shards whose result was sent on, in order
  deriving Repr, DecidableEq

/-- one iteration of the `search:` loop; `none` = the event is not enabled in this state -/
def ssStep (nShards totalMax : Nat) (counts : Nat → Nat) (s : SS) : Ev → Option SS
  | .dispatch =>
    if s.stopped || s.next ≥ nShards then none
    else
      let s' := { s with inflight := s.inflight ++ [s.next], next := s.next + 1 }
      some (if s'.next = nShards then { s' with stopped := true } else s')
  | .recv i =>
    if !s.inflight.contains i then none
    else
      let total := s.total + counts i
      some { s with inflight := s.inflight.erase i, total := total,
                    stopped := s.stopped || (decide (totalMax > 0) && decide (total > totalMax)),
                    sent := s.sent ++ [i] }

def ssRun (nShards totalMax : Nat) (counts : Nat → Nat) : SS → List Ev → Option SS
  | s, [] => some s
  | s, e :: es => (ssStep nShards totalMax counts s e).bind fun s' => ssRun nShards totalMax counts s' es

/-- the loop ends (`results` closed) when the work channel is closed and nothing is in flight -/
def ssFinished (s : SS) : Bool := s.stopped && s.inflight.isEmpty

end ZoektModel.C21
