/-
C21 — the property as executable predicates, written from the statement:

  "Per-shard, per-repository and total match-count limits, cancellation and deadlines only ever remove whole files
   from a search's results: every file returned under a limit is also returned without it, with identical matches
   and branches.  A cancelled or timed-out search finishes promptly with partial results or the context's error and
   never crashes."
-/
import ZoektModel.C21.Model
namespace ZoektModel.C21

/-- `a` is a sub-list of `b` (same relative order, elements compared whole) -/
def isSublist : List FM → List FM → Bool
  | [], _ => true
  | _ :: _, [] => false
  | x :: xs, y :: ys => if x == y then isSublist xs ys else isSublist (x :: xs) ys

/-- the statement for one shard: the limited result only lacks whole files of the unlimited one -/
def checkShard (unlimited limited : List FM) : Bool := isSublist limited unlimited

/-- promptness in the only form a model can state it: a search whose context is cancelled from poll `k` on
    evaluates at most `k - 1` further documents (the entry poll and one poll per evaluated document), hence returns
    at most that many files -/
def checkPrompt (cancelAt : Option Nat) (limited : List FM) (considered : Nat) : Bool :=
  match cancelAt with
  | none => true
  | some k => decide (considered ≤ k - 1) && decide (limited.length ≤ k - 1)

/-- the statement for the total limit: the shards whose results were returned are exactly a leading segment
    `[0, k)` of the ranked shard list, each exactly once, nothing from any other shard; and the search does not go
    on handing out shards after the total was exceeded: `k ≤ kmin + slack` where `kmin` is the shortest prefix (in
    the order the results arrived) whose match counts exceed the limit -/
def checkTotal (nShards totalMax : Nat) (counts : Nat → Nat) (sent : List Nat) (slack : Nat) : Bool :=
  let k := sent.length
  decide (k ≤ nShards) &&
  (List.range k).all (fun i => sent.count i == 1) &&
  -- either everything was searched, or the limit was really exceeded by what was returned
  (k == nShards || (decide (totalMax > 0) && decide ((sent.map counts).sum > totalMax))) &&
  -- prompt stop: at the moment the limit was first exceeded at most `slack` further shards had been handed out
  (let rec firstOver (acc n : Nat) : List Nat → Nat
     | [] => n
     | i :: r => if totalMax > 0 && acc + counts i > totalMax then n + 1 else firstOver (acc + counts i) (n + 1) r
   decide (k ≤ firstOver 0 0 sent + slack))

end ZoektModel.C21
