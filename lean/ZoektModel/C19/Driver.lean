import ZoektModel.Basic.Proto
namespace ZoektModel.C19
/-- stub: no model driver for C19 yet -/
def main : IO Unit := ZoektModel.Proto.runLines (fun _ => ZoektModel.Proto.badCase "no model driver for C19")
end ZoektModel.C19
