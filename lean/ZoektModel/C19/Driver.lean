import ZoektModel.Basic.Proto
import ZoektModel.C19.Spec
namespace ZoektModel.C19
open ZoektModel ZoektModel.Proto

def optNat? (s : String) : Option (Option Nat) :=
  if s == "x" then some none else s.toNat?.map some

/-- listing: `fnhex:mtime:side;…` (`x` = Lstat failed), `-` = empty -/
def parseListing (s : String) : Option (List Ent) :=
  if s == "-" then some [] else
  (s.splitOn ";").mapM fun e =>
    match e.splitOn ":" with
    | [f, m, sd] => do pure ⟨← hexToBytes? f, ← optNat? m, ← optNat? sd⟩
    | _ => none

/-- table: `fnhex:mtime:side;…` (`x` = no sidecar) -/
def parseTable (s : String) : Option (Table Stamp) :=
  if s == "-" then some [] else
  (s.splitOn ";").mapM fun e =>
    match e.splitOn ":" with
    | [f, m, sd] => do pure (← hexToBytes? f, (← m.toNat?, ← optNat? sd))
    | _ => none

def showOptNat : Option Nat → String
  | some n => toString n
  | none => "x"

def showTable (t : Table Stamp) : String :=
  if t.isEmpty then "-" else ";".intercalate (t.map fun (k, (m, sd)) => s!"{bytesToHex k}:{m}:{showOptNat sd}")

def showKeys (l : List Bytes) : String :=
  if l.isEmpty then "-" else ";".intercalate (l.map bytesToHex)

def parseKeys (s : String) : Option (List Bytes) :=
  if s == "-" then some [] else (s.splitOn ";").mapM hexToBytes?

def showVfp : Outcome (Bytes × Int) → String
  | .ok (n, v) => s!"ok {bytesToHex n} {v}"
  | .panic _ => "panic"
  | .err _ => "err"
  | .diverge => "diverge"

def parseVfp (s : String) : Option (Outcome (Bytes × Int)) :=
  match fields s with
  | ["ok", n, v] => do pure (.ok (← hexToBytes? n, ← v.toInt?))
  | ["panic"] => some (.panic "")
  | _ => none

def showScan : Outcome ScanOut → String
  | .ok o => s!"ok ts={showTable o.ts} drop={showKeys o.toDrop} load={showKeys o.toLoad} calls=dl"
  | .panic _ => "panic"
  | .err _ => "err"
  | .diverge => "diverge"

def parseScan (s : String) : Option (Outcome ScanOut × String) :=
  match fields s with
  | ["ok", a, b, c, d] =>
    if a.startsWith "ts=" && b.startsWith "drop=" && c.startsWith "load=" && d.startsWith "calls=" then do
      let ts ← parseTable (a.drop 3).toString
      let dr ← parseKeys (b.drop 5).toString
      let ld ← parseKeys (c.drop 5).toString
      pure (.ok ⟨ts, dr, ld⟩, (d.drop 6).toString)
    else none
  | ["panic"] => some (.panic "", "")
  | _ => none

/-! cow -/

def sortByKey (l : List (Nat × Nat)) : List (Nat × Nat) :=
  l.foldl (fun acc x =>
    let (lo, hi) := acc.span (fun y => y.1 ≤ x.1)
    lo ++ x :: hi) []

def showMap (l : List (Nat × Nat)) : String :=
  if l.isEmpty then "-" else "+".intercalate ((sortByKey l).map fun (k, v) => s!"{k}:{v}")

def parseMap (s : String) : Option (List (Nat × Nat)) :=
  if s == "-" then some [] else
  (s.splitOn "+").mapM fun e =>
    match e.splitOn ":" with
    | [a, b] => do pure (← a.toNat?, ← b.toNat?)
    | _ => none

/-- `R1:1+2:0` (key:1 = new searcher, key:0 = nil), `S`, `E3`, `G4+5` / `G-` -/
def parseCOp (s : String) : Option COp :=
  match s.toList with
  | 'R' :: rest =>
    let body := String.ofList rest
    if body == "-" then some (.replace []) else
    ((body.splitOn "+").mapM fun (e : String) =>
      match e.splitOn ":" with
      | [a, b] => (a.toNat?).map fun k => (k, b == "1")
      | _ => none).map .replace
  | ['S'] => some .begin
  | 'E' :: rest => (String.ofList rest).toNat?.map .done
  | 'G' :: rest =>
    let body := String.ofList rest
    if body == "-" then some (.gc []) else ((body.splitOn "+").mapM fun (e : String) => e.toNat?).map .gc
  | _ => none

/-- run the ops on the small-step model (`COp.acts`); output per op -/
def cowRun : CState → List COp → List String
  | _, [] => []
  | s, op :: rest =>
    match crun s op.acts with
    | none => "!" :: cowRun s rest
    | some s' =>
      let out := match op with
        | .replace _ => showMap s'.ranked
        | .begin => showMap s.ranked
        | _ => "-"
      out :: cowRun s' rest

def toObs : List COp → List String → Option (List CObs)
  | [], [] => some []
  | op :: ops, o :: os => do
    let x ← match op with
      | .replace b => (parseMap o).map (CObs.replaced b)
      | .begin => (parseMap o).map CObs.began
      | .done i => some (CObs.ended i)
      | .gc sids => some (CObs.closed sids)
    let r ← toObs ops os
    pure (x :: r)
  | _, _ => none

/--
* `vfp <pathhex>`                         impl `ok <namehex> <version>` | `panic`
* `scan <fv> <nv> <listing> <oldtable>`   impl `ok ts=… drop=… load=… calls=dl` | `panic`
* `cow <ops>`                             impl: per op the published list (after `R`), the snapshot (`S`), `-` otherwise
-/
def handle (line : String) : String :=
  let (inp, impl) := splitCase line
  match fields inp with
  | ["vfp", p] =>
    match hexToBytes? p with
    | none => badCase "path"
    | some path =>
      let model := showVfp (versionFromPath true path)
      match parseVfp impl with
      | none => badCase "impl output"
      | some out =>
        match checkVfp path out with
        | none => answer model
        | some key => specFail model key
  | ["scan", fv, nv, ls, old] =>
    match fv.toInt?, nv.toInt?, parseListing ls, parseTable old with
    | some fv, some nv, some fs, some old =>
      let model := showScan (scan true fv nv fs old)
      match parseScan impl with
      | none => badCase "impl output"
      | some (out, calls) =>
        match checkScan fv nv fs old out with
        | some key => specFail model key
        | none => if calls != "dl" && calls != "" then specFail model "scan-call-order" else answer model
    | _, _, _, _ => badCase "fields"
  | ["cow", ops] =>
    match (if ops == "-" then some [] else (ops.splitOn ",").mapM parseCOp) with
    | none => badCase "ops"
    | some ops =>
      let model := showList id (cowRun CState.init ops)
      let outs := if ops.isEmpty then [] else impl.splitOn ","
      match toObs ops outs with
      | none => badCase "impl output"
      | some obs =>
        match checkCow {} obs with
        | none => answer model
        | some key => specFail model key
  | _ => badCase "op"

def main : IO Unit := runLines handle
end ZoektModel.C19
