/-
C19 — loader level: after every scan the loaded set equals the directory (`scanStep_synced`, `runScans_synced`).
-/
import ZoektModel.C19.Lemmas
namespace ZoektModel.C19
open ZoektModel

/-! ### tables built by `filterMap` over a list with distinct keys -/

theorem get?_cons {β} (a : Bytes × β) (t : Table β) (k : Bytes) :
    Table.get? (a :: t) k = if a.1 == k then some a.2 else Table.get? t k := by
  simp only [Table.get?, List.find?_cons]
  split <;> simp_all

theorem get?_filterMap_not_mem {α β} (key : α → Bytes) (p : α → Bool) (val : α → β) (k : Bytes) :
    ∀ (D : List α), (∀ a ∈ D, key a ≠ k) →
      Table.get? (D.filterMap fun a => if p a then some (key a, val a) else none) k = none := by
  intro D
  induction D with
  | nil => intro _; rfl
  | cons a t ih =>
    intro h
    have ha : key a ≠ k := h a (by simp)
    have iht := ih (fun x hx => h x (by simp [hx]))
    simp only [List.filterMap_cons]
    split
    · exact iht
    · rename_i b hb
      split at hb
      · simp only [Option.some.injEq] at hb
        subst hb
        rw [get?_cons]
        have : (key a == k) = false := by simpa using ha
        simp [this, iht]
      · simp at hb

theorem get?_filterMap_mem {α β} (key : α → Bytes) (p : α → Bool) (val : α → β) :
    ∀ (D : List α), (D.map key).Nodup → ∀ f ∈ D,
      Table.get? (D.filterMap fun a => if p a then some (key a, val a) else none) (key f) =
        if p f then some (val f) else none := by
  intro D
  induction D with
  | nil => intro _ f hf; simp at hf
  | cons a t ih =>
    intro hn f hf
    simp only [List.map_cons, List.nodup_cons] at hn
    rcases List.mem_cons.mp hf with rfl | hmem
    · simp only [List.filterMap_cons]
      by_cases hp : p f = true
      · simp only [hp, ↓reduceIte]
        rw [get?_cons]; simp
      · have hp' : p f = false := by simpa using hp
        simp only [hp', Bool.false_eq_true, ↓reduceIte]
        exact get?_filterMap_not_mem key p val (key f) t (fun x hx h => hn.1 (h ▸ List.mem_map.mpr ⟨x, hx, rfl⟩))
    · have hne : key a ≠ key f := fun h => hn.1 (h ▸ List.mem_map.mpr ⟨f, hmem, rfl⟩)
      simp only [List.filterMap_cons]
      by_cases hp : p a = true
      · simp only [hp, ↓reduceIte]
        rw [get?_cons]
        have : (key a == key f) = false := by simpa using hne
        simp only [this, Bool.false_eq_true, ↓reduceIte]
        exact ih hn.2 f hmem
      · have hp' : p a = false := by simpa using hp
        simp only [hp', Bool.false_eq_true, ↓reduceIte]
        exact ih hn.2 f hmem

/-! ### the two views of the newest set of a disk -/

/-- file `f` of disk `D` is loaded after a scan -/
def picked (fv nv : Int) (D : Disk) (f : DFile) : Bool := f.ent.mtime.isSome && isNewest fv nv D.ents f.ent

def stampOf (f : DFile) : Stamp := (f.ent.mtime.getD 0, f.ent.side)

/-- what should be loaded: content id of every newest file -/
def newestC (fv nv : Int) (D : Disk) : Table Nat :=
  D.filterMap fun f => if picked fv nv D f then some (f.ent.fn, f.content) else none

theorem newestSpec_disk (fv nv : Int) (D : Disk) :
    newestSpec fv nv D.ents = D.filterMap fun f => if picked fv nv D f then some (f.ent.fn, stampOf f) else none := by
  rw [newestSpec_eq]
  unfold newestOn Disk.ents
  rw [List.filterMap_map]
  apply congrArg (fun g => List.filterMap g D)
  funext f
  obtain ⟨⟨fn, mt, sd⟩, c⟩ := f
  simp only [Function.comp, picked, stampOf, Disk.ents]
  cases mt with
  | none => simp
  | some m => simp

def NodupFn (D : Disk) : Prop := (D.map (·.ent.fn)).Nodup

theorem stamp_get? (fv nv : Int) (D : Disk) (hn : NodupFn D) (f : DFile) (hf : f ∈ D) :
    (newestSpec fv nv D.ents).get? f.ent.fn = if picked fv nv D f then some (stampOf f) else none := by
  rw [newestSpec_disk]
  exact get?_filterMap_mem (fun g : DFile => g.ent.fn) (picked fv nv D) stampOf D hn f hf

theorem content_get? (fv nv : Int) (D : Disk) (hn : NodupFn D) (f : DFile) (hf : f ∈ D) :
    (newestC fv nv D).get? f.ent.fn = if picked fv nv D f then some f.content else none :=
  get?_filterMap_mem (fun g : DFile => g.ent.fn) (picked fv nv D) (fun g => g.content) D hn f hf

theorem stamp_get?_absent (fv nv : Int) (D : Disk) (k : Bytes) (h : ∀ f ∈ D, f.ent.fn ≠ k) :
    (newestSpec fv nv D.ents).get? k = none := by
  rw [newestSpec_disk]
  exact get?_filterMap_not_mem (fun g : DFile => g.ent.fn) (picked fv nv D) stampOf k D h

theorem content_get?_absent (fv nv : Int) (D : Disk) (k : Bytes) (h : ∀ f ∈ D, f.ent.fn ≠ k) :
    (newestC fv nv D).get? k = none :=
  get?_filterMap_not_mem (fun g : DFile => g.ent.fn) (picked fv nv D) (fun g => g.content) k D h

theorem disk_content? (D : Disk) (hn : NodupFn D) (f : DFile) (hf : f ∈ D) : D.content? f.ent.fn = some f.content := by
  unfold Disk.content?
  induction D with
  | nil => simp at hf
  | cons a t ih =>
    simp only [NodupFn, List.map_cons, List.nodup_cons] at hn
    rcases List.mem_cons.mp hf with rfl | hmem
    · simp [List.find?_cons]
    · have hne : (a.ent.fn == f.ent.fn) = false := by
        have : a.ent.fn ≠ f.ent.fn := fun h => hn.1 (h ▸ List.mem_map.mpr ⟨f, hmem, rfl⟩)
        simpa using this
      simp only [List.find?_cons, hne]
      exact ih hn.2 hmem

/-- every key is either the name of a file on the disk or of none -/
theorem key_cases (D : Disk) (k : Bytes) : (∃ f ∈ D, f.ent.fn = k) ∨ (∀ f ∈ D, f.ent.fn ≠ k) := by
  by_cases h : ∃ f ∈ D, f.ent.fn = k
  · exact Or.inl h
  · right; intro f hf hk; exact h ⟨f, hf, hk⟩

/-! ### the loader -/

theorem get?_erase {β} (t : Table β) (k k' : Bytes) :
    (t.erase k).get? k' = if k' = k then none else t.get? k' := by
  induction t with
  | nil => simp [Table.erase, Table.get?]
  | cons a r ih =>
    simp only [Table.erase, List.filter_cons] at ih ⊢
    by_cases ha : a.1 = k
    · have : (a.1 != k) = false := by simp [ha]
      simp only [this, Bool.false_eq_true, ↓reduceIte]
      rw [ih, get?_cons]
      by_cases hk : k' = k
      · simp [hk]
      · have : (a.1 == k') = false := by rw [ha]; simpa using fun h => hk h.symm
        simp [hk, this]
    · have : (a.1 != k) = true := by simp [ha]
      simp only [this, ↓reduceIte]
      rw [get?_cons, get?_cons, ih]
      by_cases hak : (a.1 == k') = true
      · have : k' ≠ k := by
          have : a.1 = k' := by simpa using hak
          rw [← this]; exact ha
        simp [hak, this]
      · simp [hak]

theorem get?_foldl_erase {β} (ks : List Bytes) : ∀ (t : Table β) (k' : Bytes),
    (ks.foldl Table.erase t).get? k' = if k' ∈ ks then none else t.get? k' := by
  induction ks with
  | nil => intro t k'; simp
  | cons k r ih =>
    intro t k'
    rw [List.foldl_cons, ih, get?_erase]
    by_cases h1 : k' ∈ r
    · simp [h1]
    · by_cases h2 : k' = k
      · simp [h2]
      · simp [h1, h2]

theorem get?_foldl_load (D : Disk) (ks : List Bytes) : ∀ (t : Table Nat) (k' : Bytes) (c : Nat),
    D.content? k' = some c →
    (ks.foldl (loadOne D) t).get? k' = if k' ∈ ks then some c else t.get? k' := by
  induction ks with
  | nil => intro t k' c _; simp
  | cons k r ih =>
    intro t k' c hc
    rw [List.foldl_cons, ih _ k' c hc]
    by_cases h1 : k' ∈ r
    · simp [h1]
    · by_cases h2 : k' = k
      · subst h2
        simp [h1, loadOne, hc, get?_put_same]
      · simp only [h1, ↓reduceIte, List.mem_cons, h2, or_self, loadOne]
        cases hk : D.content? k with
        | none => rfl
        | some ck => exact get?_put_other _ _ _ _ h2

theorem get?_foldl_load_other (D : Disk) (ks : List Bytes) : ∀ (t : Table Nat) (k' : Bytes), k' ∉ ks →
    (ks.foldl (loadOne D) t).get? k' = t.get? k' := by
  induction ks with
  | nil => intro t k' _; rfl
  | cons k r ih =>
    intro t k' hk
    simp only [List.mem_cons, not_or] at hk
    rw [List.foldl_cons, ih _ k' hk.2]
    simp only [loadOne]
    cases hc : D.content? k with
    | none => rfl
    | some ck => exact get?_put_other _ _ _ _ hk.1

/-! ### one scan keeps the loaded set equal to the directory -/

/-- the watcher state mirrors disk `D`: its table is the newest set with its stamps, and the loaded searchers carry
    the contents of exactly those files -/
def Synced (fv nv : Int) (w : WState) (D : Disk) : Prop :=
  w.ts = newestSpec fv nv D.ents ∧ ∀ k, w.loaded.get? k = (newestC fv nv D).get? k

/-- mtimes identify versions between two scanned states: a file with the same name and the same (shard, sidecar)
    mtimes has the same content -/
def Fresh (D0 D : Disk) : Prop :=
  ∀ f0 ∈ D0, ∀ f ∈ D, f0.ent.fn = f.ent.fn → stampOf f0 = stampOf f → f0.ent.mtime.isSome → f.ent.mtime.isSome →
    f0.content = f.content

theorem mem_keys_iff {β} (t : Table β) (k : Bytes) (hn : (t.map (·.1)).Nodup) (v : β) :
    (k, v) ∈ t ↔ t.get? k = some v := by
  constructor
  · intro h; exact get?_self_of_nodup t hn (k, v) h
  · intro h
    simp only [Table.get?, Option.map_eq_some_iff] at h
    obtain ⟨a, ha, rfl⟩ := h
    have := List.mem_of_find?_eq_some ha
    have hk : a.1 = k := by simpa using List.find?_some ha
    rw [← hk]; exact this

theorem newest_nodup (fv nv : Int) (D : Disk) (hn : NodupFn D) : ((newestSpec fv nv D.ents).map (·.1)).Nodup := by
  apply (newestSpec_keys_sublist fv nv D.ents).nodup
  have : D.ents.map (·.fn) = D.map (·.ent.fn) := by simp [Disk.ents, List.map_map, Function.comp_def]
  rw [this]; exact hn

theorem support_none (fv nv : Int) (D : Disk) (hn : NodupFn D) (k : Bytes)
    (h : (newestSpec fv nv D.ents).get? k = none) : (newestC fv nv D).get? k = none := by
  rcases key_cases D k with ⟨f, hf, rfl⟩ | habs
  · rw [stamp_get? fv nv D hn f hf] at h
    rw [content_get? fv nv D hn f hf]
    split at h
    · simp at h
    · rename_i hp; simp [hp]
  · exact content_get?_absent fv nv D k habs

theorem mem_toLoad (N old : Table Stamp) (hn : (N.map (·.1)).Nodup) (k : Bytes) :
    k ∈ loadKeys N old ↔
      ∃ st, N.get? k = some st ∧ old.get? k ≠ some st := by
  simp only [loadKeys, List.mem_map, List.mem_filter]
  constructor
  · rintro ⟨⟨k', st⟩, ⟨hm, hc⟩, rfl⟩
    exact ⟨st, (mem_keys_iff N k' hn st).mp hm, by simpa using hc⟩
  · rintro ⟨st, hg, hc⟩
    exact ⟨(k, st), ⟨(mem_keys_iff N k hn st).mpr hg, by simpa using hc⟩, rfl⟩

theorem mem_toDrop (N old : Table Stamp) (hn : (old.map (·.1)).Nodup) (k : Bytes) :
    k ∈ dropKeys N old ↔
      (∃ st0, old.get? k = some st0) ∧ N.get? k = none := by
  simp only [dropKeys, List.mem_map, List.mem_filter]
  constructor
  · rintro ⟨⟨k', st⟩, ⟨hm, hc⟩, rfl⟩
    exact ⟨⟨st, (mem_keys_iff old k' hn st).mp hm⟩, by simpa using hc⟩
  · rintro ⟨⟨st, hg⟩, hc⟩
    exact ⟨(k, st), ⟨(mem_keys_iff old k hn st).mpr hg, by simpa using hc⟩, rfl⟩

/-- **one scan re-establishes "loaded = directory"**, for every pair of consecutive scanned directory states whose
    file names are distinct and between which mtimes identify versions -/
theorem scanStep_synced (fv nv : Int) (h0 : supported fv nv 0 = true) (w : WState) (D0 D : Disk)
    (hs : Synced fv nv w D0) (hn0 : NodupFn D0) (hn : NodupFn D) (hf : Fresh D0 D) :
    Synced fv nv (scanStep fv nv w D) D := by
  obtain ⟨hts, hld⟩ := hs
  unfold scanStep
  rw [scan_spec fv nv h0]
  refine ⟨rfl, ?_⟩
  intro k
  simp only [applyLoads]
  have hNn := newest_nodup fv nv D hn
  have hOn : ((w.ts).map (·.1)).Nodup := by rw [hts]; exact newest_nodup fv nv D0 hn0
  have hL := mem_toLoad (newestSpec fv nv D.ents) w.ts hNn k
  have hD := mem_toDrop (newestSpec fv nv D.ents) w.ts hOn k
  -- the branch where `k` is not in the new table
  have hnone : (newestSpec fv nv D.ents).get? k = none →
      (List.foldl (loadOne D)
        (List.foldl Table.erase w.loaded (dropKeys (newestSpec fv nv D.ents) w.ts))
        (loadKeys (newestSpec fv nv D.ents) w.ts)).get? k
        = (newestC fv nv D).get? k := by
    intro hN
    rw [support_none fv nv D hn k hN]
    have hnl : k ∉ loadKeys (newestSpec fv nv D.ents) w.ts := by
      rw [hL]; rintro ⟨st, hg, _⟩; rw [hN] at hg; cases hg
    rw [get?_foldl_load_other D _ _ k hnl, get?_foldl_erase]
    split
    · rfl
    · rename_i hnd
      rw [hD] at hnd
      have : w.ts.get? k = none := by
        cases hg : w.ts.get? k with
        | none => rfl
        | some st0 => exact absurd ⟨⟨st0, hg⟩, hN⟩ hnd
      rw [hld k]
      rw [hts] at this
      exact support_none fv nv D0 hn0 k this
  rcases key_cases D k with ⟨f, hfD, rfl⟩ | habs
  · have hst := stamp_get? fv nv D hn f hfD
    have hct := content_get? fv nv D hn f hfD
    by_cases hp : picked fv nv D f = true
    · simp only [hp, ↓reduceIte] at hst hct
      rw [hct]
      by_cases hch : w.ts.get? f.ent.fn = some (stampOf f)
      · -- unchanged: neither loaded nor dropped; the old searcher has the current content
        have hnl : f.ent.fn ∉ loadKeys (newestSpec fv nv D.ents) w.ts := by
          rw [hL]; rintro ⟨st, hg, hc⟩; rw [hst] at hg; cases hg; exact hc hch
        have hnd : f.ent.fn ∉ dropKeys (newestSpec fv nv D.ents) w.ts := by
          rw [hD]; rintro ⟨_, hg⟩; rw [hst] at hg; cases hg
        rw [get?_foldl_load_other D _ _ _ hnl, get?_foldl_erase, if_neg hnd, hld]
        rw [hts] at hch
        rcases key_cases D0 f.ent.fn with ⟨f0, hf0, hk0⟩ | habs0
        · have hst0 := stamp_get? fv nv D0 hn0 f0 hf0
          have hct0 := content_get? fv nv D0 hn0 f0 hf0
          rw [hk0] at hst0 hct0
          rw [hst0] at hch
          by_cases hp0 : picked fv nv D0 f0 = true
          · simp only [hp0, ↓reduceIte, Option.some.injEq] at hch hct0
            rw [hct0]
            congr 1
            apply hf f0 hf0 f hfD hk0 hch
            · simp only [picked, Bool.and_eq_true] at hp0; exact hp0.1
            · simp only [picked, Bool.and_eq_true] at hp; exact hp.1
          · simp [hp0] at hch
        · rw [stamp_get?_absent fv nv D0 _ habs0] at hch; cases hch
      · -- new or changed: loaded from the current file
        have hl : f.ent.fn ∈ loadKeys (newestSpec fv nv D.ents) w.ts := by
          rw [hL]; exact ⟨stampOf f, hst, hch⟩
        rw [get?_foldl_load D _ _ _ f.content (disk_content? D hn f hfD), if_pos hl]
    · have hp' : picked fv nv D f = false := by simpa using hp
      simp only [hp', Bool.false_eq_true, ↓reduceIte] at hst
      exact hnone hst
  · exact hnone (stamp_get?_absent fv nv D k habs)

/-- the chain condition on a history of scanned directory states -/
def GoodHistory : Disk → List Disk → Prop
  | _, [] => True
  | D0, D :: rest => NodupFn D ∧ Fresh D0 D ∧ GoodHistory D rest

/-- **convergence**: starting in sync with `D0` (e.g. nothing loaded, empty directory), after scanning a history of
    directory states the watcher is in sync with the last one: the loaded set is exactly the newest files of the final
    directory, with their current contents and sidecars -/
theorem runScans_synced (fv nv : Int) (h0 : supported fv nv 0 = true) :
    ∀ (ds : List Disk) (w : WState) (D0 : Disk), Synced fv nv w D0 → NodupFn D0 → GoodHistory D0 ds →
      Synced fv nv (runScans fv nv w ds) ((D0 :: ds).getLast (by simp)) := by
  intro ds
  induction ds with
  | nil => intro w D0 hs _ _; simpa [runScans] using hs
  | cons D rest ih =>
    intro w D0 hs hn0 hg
    obtain ⟨hn, hf, hrest⟩ := hg
    have := ih (scanStep fv nv w D) D (scanStep_synced fv nv h0 w D0 D hs hn0 hn hf) hn hrest
    simpa [runScans, List.getLast_cons] using this

theorem synced_empty (fv nv : Int) : Synced fv nv ⟨[], []⟩ [] := by
  refine ⟨by simp [newestSpec, Disk.ents], ?_⟩
  intro k; simp [newestC, Table.get?]

end ZoektModel.C19
