/-
C19 — `checkVfp` holds of the model of `versionFromPath` for every path.
-/
import ZoektModel.C19.Lemmas
namespace ZoektModel.C19
open ZoektModel

theorem lastIndexOf_none (c : UInt8) : ∀ (l : Bytes), lastIndexOf c l = none → c ∉ l := by
  intro l
  induction l with
  | nil => intro _; simp
  | cons b t ih =>
    intro h
    simp only [lastIndexOf] at h
    split at h
    · simp at h
    · rename_i ht
      split at h
      · simp at h
      · rename_i hb
        simp only [List.mem_cons, not_or]
        exact ⟨fun e => hb e.symm, ih ht⟩

theorem lastIndexOf_some (c : UInt8) : ∀ (l : Bytes) (i : Nat), lastIndexOf c l = some i →
    i < l.length ∧ l.drop i = c :: l.drop (i + 1) ∧ c ∉ l.drop (i + 1) := by
  intro l
  induction l with
  | nil => intro i h; simp [lastIndexOf] at h
  | cons b t ih =>
    intro i h
    simp only [lastIndexOf] at h
    split at h
    · rename_i j hj
      simp only [Option.some.injEq] at h
      subst h
      obtain ⟨h1, h2, h3⟩ := ih j hj
      refine ⟨by simp; omega, ?_, ?_⟩
      · simpa using h2
      · simpa using h3
    · rename_i ht
      split at h
      · rename_i hb
        simp only [Option.some.injEq] at h
        subst h
        subst hb
        exact ⟨by simp, by simp, by simpa using lastIndexOf_none _ t ht⟩
      · simp at h

theorem indexOf_cons_ne (c b : UInt8) (t : Bytes) (h : b ≠ c) : indexOf c (b :: t) = (indexOf c t).map (· + 1) := by
  simp [indexOf, h]

theorem take_length_le (l : Bytes) (n : Nat) (h : n ≤ l.length) : (l.take n).length = n := by
  simp [List.length_take, Nat.min_eq_left h]

/-- **the executable statement about `versionFromPath` holds of the model, for every byte string** -/
theorem checkVfp_model (path : Bytes) : checkVfp path (versionFromPath true path) = none := by
  unfold versionFromPath
  cases h1 : lastIndexOf 95 path with
  | none => simp [checkVfp]
  | some und =>
    simp only []
    cases h2 : indexOf 46 (path.drop und) with
    | none => simp [checkVfp]
    | some d =>
      simp only []
      by_cases hc : und + 2 > d + und
      · simp [hc, checkVfp]
      · simp only [hc, ↓reduceIte]
        cases h3 : atoi (Bytes.slice path (und + 2) (d + und)) with
        | none => simp [checkVfp]
        | some v =>
          simp only []
          obtain ⟨hlt, hdrop, hnot⟩ := lastIndexOf_some 95 path und h1
          have hd2 : 2 ≤ d := by omega
          -- the byte after '_' and the rest
          rw [hdrop, indexOf_cons_ne 46 95 _ (by decide)] at h2
          cases h4 : indexOf 46 (path.drop (und + 1)) with
          | none => simp [h4] at h2
          | some d1 =>
            simp only [h4, Option.map_some, Option.some.injEq] at h2
            have hd1 : 1 ≤ d1 := by omega
            -- path.drop (und+1) is non-empty and does not start with '.'
            cases h5 : path.drop (und + 1) with
            | nil => rw [h5] at h4; simp [indexOf] at h4
            | cons c r =>
              rw [h5] at h4 hnot
              have hc46 : c ≠ 46 := by
                intro e; subst e; simp [indexOf] at h4; omega
              rw [indexOf_cons_ne 46 c r hc46] at h4
              cases h6 : indexOf 46 r with
              | none => simp [h6] at h4
              | some d2 =>
                simp only [h6, Option.map_some, Option.some.injEq] at h4
                have hr : r = path.drop (und + 2) := by
                  have := congrArg (List.drop 1) h5
                  rw [List.drop_drop] at this
                  have e : und + 1 + 1 = und + 2 := by omega
                  rw [e] at this
                  simpa using this.symm
                have hslice : Bytes.slice path (und + 2) (d + und) = r.take d2 := by
                  unfold Bytes.slice
                  rw [← hr]
                  congr 1
                  omega
                rw [hslice] at h3
                have hnot95 : r.contains 95 = false := by
                  simp only [List.contains_eq_mem, decide_eq_false_iff_not]
                  intro hm; exact hnot (List.mem_cons_of_mem _ hm)
                unfold checkVfp
                simp only []
                split
                · rfl
                · have hpre : (path.take und).isPrefixOf path = true := by
                    rw [List.isPrefixOf_iff_prefix]; exact List.take_prefix _ _
                  have hlen : (path.take und).length = und := take_length_le path und (Nat.le_of_lt hlt)
                  simp only [hpre, Bool.not_true, Bool.false_eq_true, ↓reduceIte, hlen, hdrop, h5, hnot95, h6, h3, BEq.rfl]

/-- exactly which paths made the unfixed `versionFromPath` panic: those whose last `_` is directly followed by `.` -/
theorem vfp_old_panics_iff (path : Bytes) :
    (∃ site, versionFromPath false path = .panic site) ↔
      ∃ und, lastIndexOf 95 path = some und ∧ (path.drop (und + 1)).head? = some 46 := by
  unfold versionFromPath
  cases h1 : lastIndexOf 95 path with
  | none => simp
  | some und =>
    simp only [Option.some.injEq, exists_eq_left']
    obtain ⟨hlt, hdrop, hnot⟩ := lastIndexOf_some 95 path und h1
    rw [hdrop, indexOf_cons_ne 46 95 _ (by decide)]
    cases h5 : path.drop (und + 1) with
    | nil => simp [indexOf]
    | cons c r =>
      by_cases hc : c = 46
      · subst hc
        simp only [indexOf, ↓reduceIte, Option.map_some, List.head?_cons, iff_true]
        have : 0 + 1 + und < und + 2 := by omega
        exact ⟨"slice bounds out of range [und+2:dot]", by simp [this]⟩
      · rw [indexOf_cons_ne 46 c r hc]
        cases h6 : indexOf 46 r with
        | none => simp [hc]
        | some d2 =>
          have : ¬ (und + 2 > d2 + 1 + 1 + und) := by omega
          simp only [Option.map_some, this, ↓reduceIte, List.head?_cons, Option.some.injEq, hc, iff_false, not_exists]
          intro site
          split <;> simp

end ZoektModel.C19
