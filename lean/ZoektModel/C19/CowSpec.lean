/-
C19 — `checkCow` (the executable statement about the copy-on-write shard set, evaluated on the implementation's
observations) accepts every run of the small-step model.
-/
import ZoektModel.C19.Lemmas
namespace ZoektModel.C19
open ZoektModel

/-- the ledger of `checkCow` mirrors the model state between operations -/
structure BookRel (s : CState) (b : CBook) : Prop where
  idle : s.pending = none
  pub : s.ranked = s.shards
  ranked : b.ranked = s.ranked
  live : b.live = s.searches
  closed : ∀ x, x ∈ b.closed ↔ x ∈ s.closed
  next : b.next = s.next

theorem crun_reach : ∀ (acts : List CAct) (s s' : CState), CReach s → crun s acts = some s' → CReach s' := by
  intro acts
  induction acts with
  | nil => intro s s' h hr; simp [crun] at hr; exact hr ▸ h
  | cons a t ih =>
    intro s s' h hr
    simp only [crun] at hr
    split at hr
    · rename_i s1 hs; exact ih s1 s' (CReach.step a h hs) hr
    · simp at hr

theorem crun_append (a b : List CAct) (s : CState) :
    crun s (a ++ b) = (crun s a).bind (fun s1 => crun s1 b) := by
  induction a generalizing s with
  | nil => rfl
  | cons x t ih =>
    simp only [List.cons_append, crun]
    cases cstep s x with
    | none => rfl
    | some s1 => exact ih s1

theorem assignIds_length : ∀ (batch : List (Nat × Bool)) (n : Nat), (assignIds batch n).1.length = batch.length := by
  intro batch
  induction batch with
  | nil => intro n; rfl
  | cons a t ih =>
    intro n
    obtain ⟨k, b⟩ := a
    cases b <;> simp [assignIds, ih]

def applyKey (m : List (Nat × Nat)) (k : Nat) : Option Nat → List (Nat × Nat)
  | some sid => mapPut m k sid
  | none => mapErase m k

theorem expectedAfter_cons (m : List (Nat × Nat)) (k : Nat) (v : Option Nat) (rest : List (Nat × Option Nat)) :
    expectedAfter m ((k, v) :: rest) = expectedAfter (applyKey m k v) rest := by
  cases v <;> rfl

theorem cstep_key (s : CState) (k : Nat) (v : Option Nat) (rest : List (Nat × Option Nat))
    (hp : s.pending = some ((k, v) :: rest)) :
    ∃ s1, cstep s .replaceKey = some s1 ∧ s1.pending = some rest ∧ s1.shards = applyKey s.shards k v ∧
      s1.searches = s.searches ∧ s1.closed = s.closed ∧ s1.next = s.next := by
  cases v with
  | some sid => simp only [cstep, hp]; exact ⟨_, rfl, rfl, rfl, rfl, rfl, rfl⟩
  | none => simp only [cstep, hp]; exact ⟨_, rfl, rfl, rfl, rfl, rfl, rfl⟩

/-- applying the keys of a pending batch one by one, then publishing -/
theorem crun_keys : ∀ (b : List (Nat × Option Nat)) (s : CState), s.pending = some b →
    ∃ s', crun s (List.replicate b.length CAct.replaceKey ++ [CAct.replaceStore]) = some s' ∧
      s'.ranked = expectedAfter s.shards b ∧ s'.shards = s'.ranked ∧ s'.pending = none ∧
      s'.searches = s.searches ∧ s'.closed = s.closed ∧ s'.next = s.next := by
  intro b
  induction b with
  | nil =>
    intro s hp
    refine ⟨{ s with ranked := s.shards, pending := none, published := s.shards :: s.published }, ?_, rfl, rfl, rfl, rfl, rfl, rfl⟩
    simp [crun, cstep, hp]
  | cons kv rest ih =>
    intro s hp
    obtain ⟨k, v⟩ := kv
    obtain ⟨s1, h1, hp1, hsh, hse, hcl, hnx⟩ := cstep_key s k v rest hp
    obtain ⟨s', hr, a1, a2, a3, a4, a5, a6⟩ := ih s1 hp1
    refine ⟨s', ?_, ?_, a2, a3, a4.trans hse, a5.trans hcl, a6.trans hnx⟩
    · simp only [List.length_cons, List.replicate_succ, List.cons_append, crun, h1]
      exact hr
    · rw [a1, hsh, expectedAfter_cons]

theorem map_const_replicate {α β} (l : List α) (c : β) : l.map (fun _ => c) = List.replicate l.length c := by
  induction l with
  | nil => rfl
  | cons a t ih => simp [List.replicate_succ, ih]

theorem sameSet_refl' {α} [BEq α] [LawfulBEq α] (l : List α) : sameSet l l = true := by
  simp [sameSet, List.all_eq_true]

/-- finalizer runs: what a successful sequence of `finalize` steps implies -/
theorem crun_finalize : ∀ (sids : List Nat) (s s' : CState), crun s (sids.map .finalize) = some s' →
    s'.shards = s.shards ∧ s'.ranked = s.ranked ∧ s'.searches = s.searches ∧ s'.pending = s.pending ∧ s'.next = s.next ∧
    (∀ x, x ∈ s'.closed ↔ x ∈ sids ∨ x ∈ s.closed) ∧ sids.Nodup ∧
    (∀ x ∈ sids, x ∈ s.finalizable ∧ x ∉ s.closed ∧ reachable s x = false) := by
  intro sids
  induction sids with
  | nil => intro s s' h; simp [crun] at h; subst h; simp
  | cons a t ih =>
    intro s s' h
    simp only [List.map_cons, crun] at h
    split at h
    · rename_i s1 hs
      simp only [cstep] at hs
      split at hs
      · rename_i hg
        simp only [Option.some.injEq] at hs
        subst hs
        simp only [Bool.and_eq_true, List.contains_eq_mem, decide_eq_true_eq, Bool.not_eq_true', decide_eq_false_iff_not] at hg
        obtain ⟨⟨hfin, hncl⟩, hunr⟩ := hg
        obtain ⟨b1, b2, b3, b4, b5, b6, b7, b8⟩ := ih _ s' h
        refine ⟨b1, b2, b3, b4, b5, ?_, ?_, ?_⟩
        · intro x; rw [b6]; simp only [List.mem_cons]
          constructor
          · rintro (h | h | h)
            · exact Or.inl (Or.inr h)
            · exact Or.inl (Or.inl h)
            · exact Or.inr h
          · rintro ((h | h) | h)
            · exact Or.inr (Or.inl h)
            · exact Or.inl h
            · exact Or.inr (Or.inr h)
        · rw [List.nodup_cons]
          refine ⟨fun hm => ?_, b7⟩
          exact (b8 a hm).2.1 (by simp)
        · intro x hx
          rcases List.mem_cons.mp hx with rfl | hx
          · exact ⟨hfin, hncl, by simpa using hunr⟩
          · obtain ⟨c1, c2, c3⟩ := b8 x hx
            refine ⟨c1, fun hm => c2 (List.mem_cons_of_mem _ hm), ?_⟩
            simpa [reachable] using c3
      · simp at hs
    · simp at h

/-- **`checkCow` accepts every run of the model**: for every sequence of client operations, from every reachable
    state between operations -/
theorem checkCow_model : ∀ (ops : List COp) (s : CState) (b : CBook) (obs : List CObs),
    CReach s → BookRel s b → cowObs s ops = some obs → checkCow b obs = none := by
  intro ops
  induction ops with
  | nil => intro s b obs _ _ h; simp [cowObs] at h; subst h; rfl
  | cons op rest ih =>
    intro s b obs hreach hrel h
    simp only [cowObs] at h
    split at h
    · simp at h
    · rename_i s' hrun
      simp only [Option.map_eq_some_iff] at h
      obtain ⟨obs', hobs', rfl⟩ := h
      have hreach' := crun_reach _ _ _ hreach hrun
      obtain ⟨hidle, hpub, hrk, hlv, hcl, hnx⟩ := hrel
      simp only [checkCow]
      cases op with
      | replace batch =>
        simp only [COp.acts] at hrun
        simp only [COp.obs, checkCowStep]
        by_cases hb : batch.isEmpty = true
        · have hbe : batch = [] := by simpa using hb
          subst hbe
          simp only [List.isEmpty_nil, ↓reduceIte, List.append_nil, crun, cstep, hidle, Option.isSome_none,
            List.map_nil, nodupKeys, Bool.not_true, Bool.or_self, Bool.false_eq_true] at hrun
          simp only [Option.some.injEq] at hrun
          subst hrun
          have hn1 := (creach_inv1 hreach).pub_nodup _ (creach_inv1 hreach).pub_ranked
          have : nodupKeys (s.ranked.map (·.1)) = true := (nodupKeys_iff _).mpr hn1
          simp only [assignIds, this, Bool.not_true, Bool.false_eq_true, ↓reduceIte, expectedAfter, hrk, sameSet_refl']
          exact ih s _ obs' hreach ⟨hidle, hpub, rfl, hlv, hcl, hnx⟩ hobs'
        · have hb' : batch.isEmpty = false := by simpa using hb
          simp only [hb', Bool.false_eq_true, ↓reduceIte, List.singleton_append, crun] at hrun
          split at hrun
          · rename_i s1 hs1
            simp only [cstep, hidle, Option.isSome_none, Bool.false_or] at hs1
            split at hs1
            · simp at hs1
            · simp only [hb', Bool.false_eq_true, ↓reduceIte, Option.some.injEq] at hs1
              subst hs1
              rw [map_const_replicate, ← assignIds_length batch s.next] at hrun
              obtain ⟨s2, hr2, a1, a2, a3, a4, a5, a6⟩ := crun_keys (assignIds batch s.next).1
                { s with pending := some (assignIds batch s.next).1, next := (assignIds batch s.next).2 } rfl
              rw [hr2] at hrun
              simp only [Option.some.injEq] at hrun
              subst hrun
              have hn1 := (creach_inv1 hreach').pub_nodup _ (creach_inv1 hreach').pub_ranked
              have hnk : nodupKeys (s2.ranked.map (·.1)) = true := (nodupKeys_iff _).mpr hn1
              have hexp : s2.ranked = expectedAfter b.ranked (assignIds batch b.next).1 := by
                rw [a1, hrk, hnx, hpub]
              simp only [hnk, Bool.not_true, Bool.false_eq_true, ↓reduceIte, ← hexp, sameSet_refl']
              exact ih s2 _ obs' hreach' ⟨a3, a2.symm, rfl, by rw [hlv]; exact a4.symm,
                fun x => by rw [hcl, a5], by rw [hnx]; exact a6.symm⟩ hobs'
          · simp at hrun
      | begin =>
        simp only [COp.acts, crun, cstep, Option.some.injEq] at hrun
        subst hrun
        have hn1 := (creach_inv1 hreach).pub_nodup _ (creach_inv1 hreach).pub_ranked
        have : nodupKeys (s.ranked.map (·.1)) = true := (nodupKeys_iff _).mpr hn1
        simp only [COp.obs, checkCowStep, this, Bool.not_true, Bool.false_eq_true, ↓reduceIte, hrk, sameSet_refl']
        exact ih _ _ obs' hreach' ⟨hidle, hpub, rfl, by rw [hlv], hcl, hnx⟩ hobs'
      | done i =>
        simp only [COp.acts, crun, cstep] at hrun
        by_cases hi : i < s.searches.length
        · simp only [hi, ↓reduceIte, Option.some.injEq] at hrun
          subst hrun
          simp only [COp.obs, checkCowStep]
          exact ih _ _ obs' hreach' ⟨hidle, hpub, hrk, by rw [hlv], hcl, hnx⟩ hobs'
        · simp [hi] at hrun
      | gc sids =>
        simp only [COp.acts] at hrun
        obtain ⟨c1, c2, c3, c4, c5, c6, c7, c8⟩ := crun_finalize sids s s' hrun
        simp only [COp.obs, checkCowStep]
        have h1 : (sids.any fun x => b.ranked.any (·.2 == x) || b.live.any (·.any (·.2 == x))) = false := by
          rw [List.any_eq_false]
          intro x hx
          have hu := (c8 x hx).2.2
          simp only [reachable, Bool.or_eq_false_iff] at hu
          rw [hrk, hlv]
          simp [hu.1.2, hu.2]
        have h2 : (sids.any b.closed.contains || !nodupKeys sids) = false := by
          simp only [Bool.or_eq_false_iff, Bool.not_eq_false']
          refine ⟨?_, (nodupKeys_iff _).mpr c7⟩
          rw [List.any_eq_false]
          intro x hx
          simp only [List.contains_eq_mem, decide_eq_true_eq]
          rw [hcl]; exact (c8 x hx).2.1
        have h3 : (sids.any (· ≥ b.next)) = false := by
          rw [List.any_eq_false]
          intro x hx
          have := ((creach_inv2 hreach).bound x (Or.inr (Or.inl (c8 x hx).1))).1
          simp only [ge_iff_le, decide_eq_true_eq, Nat.not_le]
          rw [hnx]; exact this
        simp only [h1, h2, h3, Bool.false_eq_true, ↓reduceIte]
        refine ih s' _ obs' hreach' ⟨c4.trans hidle, by rw [c2, c1]; exact hpub, by rw [c2]; exact hrk,
          by rw [c3]; exact hlv, ?_, by rw [c5]; exact hnx⟩ hobs'
        intro x
        rw [c6, List.mem_append, hcl]

/-! ### publication in chunks (`loader.load` publishes what it has every 5 s, then the rest) -/

theorem expectedAfter_append (m : List (Nat × Nat)) (b1 b2 : List (Nat × Option Nat)) :
    expectedAfter m (b1 ++ b2) = expectedAfter (expectedAfter m b1) b2 := by
  induction b1 generalizing m with
  | nil => rfl
  | cons kv rest ih =>
    obtain ⟨k, v⟩ := kv
    cases v <;> simp only [List.cons_append, expectedAfter] <;> exact ih _

theorem assignIds_append (b1 b2 : List (Nat × Bool)) (n : Nat) :
    assignIds (b1 ++ b2) n =
      ((assignIds b1 n).1 ++ (assignIds b2 (assignIds b1 n).2).1, (assignIds b2 (assignIds b1 n).2).2) := by
  induction b1 generalizing n with
  | nil => simp [assignIds]
  | cons a t ih =>
    obtain ⟨k, b⟩ := a
    cases b <;> simp only [List.cons_append, assignIds, ih] <;> rfl

end ZoektModel.C19
