/-
C19 — model of search/watcher.go (`versionFromPath`, `DirectoryWatcher.scan`) and of the copy-on-write shard set of
search/shards.go (`shardedSearcher.replace`, `getLoaded`, the finalizer / `KeepAlive` contract, `loader.load/drop`).

Core Lean only.  Three parts:

* `versionFromPath` over byte strings, with the Go slice expression `path[und+2:dot]` explicit (`Outcome.panic`).
  `fixed = false` is the code before the `fix:` commit (panics when the byte after the last `_` is `.`),
  `fixed = true` the code after it (`if und+2 > dot { return path, 0 }`).
* `scan`: one run of `DirectoryWatcher.scan` over a directory listing (what `filepath.Glob` and `os.Lstat` return)
  and the watcher's `timestamps` table; result = new table + `toDrop` + `toLoad`.  `scanLoaded` adds the loader's
  effect on the loaded set; `runScans` iterates over a history of directory states.
* `CStep`: small-step model of the shard set: `replace` applies a batch key by key under `mu` and publishes the new
  ranked list with one atomic store at the end; searches take the published list (`getLoaded`) and keep it reachable
  until they end; a replaced shard is closed by a finalizer, which the runtime runs only when nothing references it.
-/
import ZoektModel.Basic.Bytes
import ZoektModel.Basic.Outcome
namespace ZoektModel.C19
open ZoektModel

/-! ## versionFromPath -/

/-- `strings.LastIndex(s, c)` for a single byte -/
def lastIndexOf (c : UInt8) : Bytes → Option Nat
  | [] => none
  | b :: t =>
    match lastIndexOf c t with
    | some i => some (i + 1)
    | none => if b = c then some 0 else none

/-- `strings.Index(s, c)` for a single byte -/
def indexOf (c : UInt8) : Bytes → Option Nat
  | [] => none
  | b :: t => if b = c then some 0 else (indexOf c t).map (· + 1)

def isDigit (b : UInt8) : Bool := 48 ≤ b && b ≤ 57

def digitsVal (ds : Bytes) : Nat := ds.foldl (fun a d => a * 10 + (d.toNat - 48)) 0

/-- `strconv.Atoi` on a 64-bit platform: optional sign, at least one digit, only digits, value within int64 -/
def atoi (b : Bytes) : Option Int :=
  let (neg, ds) : Bool × Bytes := match b with
    | 43 :: r => (false, r)
    | 45 :: r => (true, r)
    | _ => (false, b)
  if ds.isEmpty || !ds.all isDigit then none else
  let v : Int := if neg then -(digitsVal ds : Int) else (digitsVal ds : Int)
  if v < -9223372036854775808 || v > 9223372036854775807 then none else some v

/-- `versionFromPath(path)`; `und = LastIndex(path, "_")`, `dot = und + Index(path[und:], ".")` -/
def versionFromPath (fixed : Bool) (path : Bytes) : Outcome (Bytes × Int) :=
  match lastIndexOf 95 path with
  | none => .ok (path, 0)
  | some und =>
    match indexOf 46 (path.drop und) with
    | none => .ok (path, 0)
    | some d =>
      let dot := d + und
      if und + 2 > dot then
        (if fixed then .ok (path, 0) else .panic "slice bounds out of range [und+2:dot]")
      else
        match atoi (Bytes.slice path (und + 2) dot) with
        | none => .ok (path, 0)
        | some v => .ok (path.take und, v)

/-! ## scan -/

/-- what `scan` learns about one `*.zoekt` path returned by `filepath.Glob` -/
structure Ent where
  fn : Bytes
  mtime : Option Nat     -- `os.Lstat(fn)`: `none` = error (the file vanished after Glob)
  side : Option Nat      -- `os.Lstat(fn + ".meta")`
  deriving Repr, DecidableEq

abbrev Table (β : Type) := List (Bytes × β)

def Table.get? {β} (t : Table β) (k : Bytes) : Option β := (t.find? (·.1 == k)).map (·.2)

def Table.put {β} : Table β → Bytes → β → Table β
  | [], k, v => [(k, v)]
  | (k', v') :: t, k, v => if k' == k then (k', v) :: t else (k', v') :: Table.put t k v

def Table.keys {β} (t : Table β) : List Bytes := t.map (·.1)

/-- Go `latest[name]` on a `map[string]int`: absent = 0 -/
def latestGet (m : Table Int) (k : Bytes) : Int := (m.get? k).getD 0

/-- first loop of `scan`: newest supported version per name -/
def latestStep (fixed : Bool) (fv nv : Int) (acc : Outcome (Table Int)) (e : Ent) : Outcome (Table Int) :=
  match acc with
  | .ok m =>
    match versionFromPath fixed e.fn with
    | .ok (name, version) =>
      if version > fv && version > nv then .ok m
      else if latestGet m name < version then .ok (m.put name version) else .ok m
    | .err x => .err x
    | .panic s => .panic s
    | .diverge => .diverge
  | o => o

def latestOf (fixed : Bool) (fv nv : Int) (fs : List Ent) : Outcome (Table Int) :=
  fs.foldl (latestStep fixed fv nv) (.ok [])

/-- what `scan` remembers per loaded shard (`shardStamp`): mtime of the shard and of its sidecar (`none` = no sidecar) -/
abbrev Stamp := Nat × Option Nat

/-- the single timestamp the code used before the second `fix:` commit: the later of shard and sidecar mtime.
    Not injective in the sidecar (see Props: `effTime_forgets_sidecar`), which is why removing a sidecar that is
    older than its shard went unnoticed. Kept only to state that defect. -/
def effTime (mtime : Nat) (side : Option Nat) : Nat :=
  match side with
  | some m => if m > mtime then m else mtime
  | none => mtime

/-- second loop: `ts[fn]` for every newest-version file that can be stat'ed (in listing order) -/
def tsOf (fixed : Bool) (latest : Table Int) : List Ent → Table Stamp
  | [] => []
  | e :: rest =>
    match versionFromPath fixed e.fn with
    | .ok (name, version) =>
      if latestGet latest name != version then tsOf fixed latest rest
      else match e.mtime with
        | none => tsOf fixed latest rest
        | some mt => (e.fn, (mt, e.side)) :: tsOf fixed latest rest
    | _ => tsOf fixed latest rest

structure ScanOut where
  ts : Table Stamp        -- the new `timestamps`
  toDrop : List Bytes
  toLoad : List Bytes
  deriving Repr, DecidableEq

/-- keys to (re)load: in the new table with a stamp that is not the remembered one -/
def loadKeys (ts old : Table Stamp) : List Bytes := (ts.filter fun kv => old.get? kv.1 != some kv.2).map (·.1)

/-- keys to drop: remembered, no longer in the new table -/
def dropKeys (ts old : Table Stamp) : List Bytes := (old.filter fun kv => (ts.get? kv.1).isNone).map (·.1)

/-- `DirectoryWatcher.scan`. `old` = `s.timestamps` before. Lists are in listing order / `old` order
    (Go iterates maps in random order; the harness sorts). -/
def scan (fixed : Bool) (fv nv : Int) (fs : List Ent) (old : Table Stamp) : Outcome ScanOut :=
  match latestOf fixed fv nv fs with
  | .ok latest =>
    let ts := tsOf fixed latest fs
    .ok ⟨ts, dropKeys ts old, loadKeys ts old⟩
  | .err x => .err x
  | .panic s => .panic s
  | .diverge => .diverge

/-! ### the loader: what is loaded after a scan -/

/-- a directory state: listing plus, per file, an identifier of its content (shard bytes + sidecar bytes) -/
structure DFile where
  ent : Ent
  content : Nat
  deriving Repr, DecidableEq

abbrev Disk := List DFile

def Disk.ents (d : Disk) : List Ent := d.map (·.ent)
def Disk.content? (d : Disk) (k : Bytes) : Option Nat := (d.find? (·.ent.fn == k)).map (·.content)

structure WState where
  ts : Table Stamp        -- DirectoryWatcher.timestamps
  loaded : Table Nat      -- shardedSearcher.shards: key → content id of the loaded searcher
  deriving Repr, DecidableEq

def Table.erase {β} (t : Table β) (k : Bytes) : Table β := t.filter (·.1 != k)

/-- `loader.load` of one key: every load succeeds and reads the file's current content -/
def loadOne (d : Disk) (acc : Table Nat) (k : Bytes) : Table Nat :=
  match d.content? k with
  | some c => acc.put k c
  | none => acc

/-- `loader.drop(toDrop...)` then `loader.load(toLoad...)` -/
def applyLoads (d : Disk) (loaded : Table Nat) (toDrop toLoad : List Bytes) : Table Nat :=
  toLoad.foldl (loadOne d) (toDrop.foldl Table.erase loaded)

def scanStep (fv nv : Int) (w : WState) (d : Disk) : WState :=
  match scan true fv nv d.ents w.ts with
  | .ok o => ⟨o.ts, applyLoads d w.loaded o.toDrop o.toLoad⟩
  | _ => w

def runScans (fv nv : Int) (w : WState) (ds : List Disk) : WState := ds.foldl (scanStep fv nv) w

/-! ## copy-on-write shard set -/

/- keys (`Nat`) stand for shard file names, searcher ids (`Nat`) for one loaded version of one shard file -/

structure CState where
  shards : List (Nat × Nat)          -- `ss.shards` (protected by `mu`)
  ranked : List (Nat × Nat)          -- `ss.ranked` (atomic.Value): what `getLoaded` returns
  pending : Option (List (Nat × Option Nat))   -- `replace` in progress: rest of its batch (`mu` held)
  finalizable : List Nat             -- shards on which `replace` set a finalizer
  closed : List Nat                  -- shards whose `Close` ran
  searches : List (List (Nat × Nat)) -- running searches: the snapshot each works on (index = search id)
  published : List (List (Nat × Nat)) -- ghost: every list ever stored in `ranked`
  next : Nat                         -- ghost: identity of the next searcher the loader creates
  deriving Repr, DecidableEq

def CState.init : CState := ⟨[], [], none, [], [], [], [[]], 0⟩

/-- give the new searchers of a batch their identities, in batch order (`true` = a freshly loaded searcher,
    `false` = `nil`, i.e. drop the key) -/
def assignIds : List (Nat × Bool) → Nat → List (Nat × Option Nat) × Nat
  | [], n => ([], n)
  | (k, true) :: t, n => ((k, some n) :: (assignIds t (n + 1)).1, (assignIds t (n + 1)).2)
  | (k, false) :: t, n => ((k, none) :: (assignIds t n).1, (assignIds t n).2)

def nodupKeys : List Nat → Bool
  | [] => true
  | k :: t => !t.contains k && nodupKeys t

def mapGet (m : List (Nat × Nat)) (k : Nat) : Option Nat := (m.find? (·.1 == k)).map (·.2)
def mapErase (m : List (Nat × Nat)) (k : Nat) : List (Nat × Nat) := m.filter (·.1 != k)
def mapPut (m : List (Nat × Nat)) (k : Nat) (v : Nat) : List (Nat × Nat) := mapErase m k ++ [(k, v)]

inductive CAct
  | replaceBegin (batch : List (Nat × Bool))         -- `s.mu.Lock()`; the argument is a Go map: distinct keys
  | replaceKey                                       -- one iteration of `for key, shard := range shards`
  | replaceStore                                     -- `s.ranked.Store(ranked)`, `mu.Unlock()`
  | searchBegin                                      -- `getLoaded()`
  | searchEnd (i : Nat)                              -- `done()` = `runtime.KeepAlive(shards)` is passed
  | finalize (sid : Nat)                             -- the runtime runs the finalizer: `r.Close()`
  deriving Repr, DecidableEq

def reachable (s : CState) (sid : Nat) : Bool :=
  s.shards.any (·.2 == sid) || s.ranked.any (·.2 == sid) || s.searches.any (·.any (·.2 == sid))

def cstep (s : CState) : CAct → Option CState
  | .replaceBegin batch =>
    if s.pending.isSome || !nodupKeys (batch.map (·.1)) then none   -- `mu` is held by another replace
    else if batch.isEmpty then some s        -- `if len(shards) == 0 { return }`
    else
      let (b, n) := assignIds batch s.next
      some { s with pending := some b, next := n }
  | .replaceKey =>
    match s.pending with
    | some ((k, v) :: rest) =>
      let old := mapGet s.shards k
      let shards' := match v with
        | some sid => mapPut s.shards k sid
        | none => mapErase s.shards k
      let fin := match old with
        | some o => o :: s.finalizable
        | none => s.finalizable
      some { s with shards := shards', finalizable := fin, pending := some rest }
    | _ => none
  | .replaceStore =>
    match s.pending with
    | some [] => some { s with ranked := s.shards, pending := none, published := s.shards :: s.published }
    | _ => none
  | .searchBegin => some { s with searches := s.searches ++ [s.ranked] }
  | .searchEnd i =>
    if i < s.searches.length then some { s with searches := s.searches.set i [] } else none
  | .finalize sid =>
    if s.finalizable.contains sid && !s.closed.contains sid && !reachable s sid
    then some { s with closed := sid :: s.closed } else none

inductive CReach : CState → Prop
  | init : CReach CState.init
  | step {s s' : CState} (a : CAct) : CReach s → cstep s a = some s' → CReach s'

def crun : CState → List CAct → Option CState
  | s, [] => some s
  | s, a :: rest =>
    match cstep s a with
    | some s' => crun s' rest
    | none => none

end ZoektModel.C19
