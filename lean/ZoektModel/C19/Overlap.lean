/-
C19 — scans that overlap directory changes: the stat phase of a scan sees directory state `A`, its loads read a
later state `B`.  Such a scan leaves the watcher only *loosely* in sync; a later scan during which the directory does
not change (the one after the directory "stops changing") makes it exact again (`overlap_converges`).
-/
import ZoektModel.C19.Converge
namespace ZoektModel.C19
open ZoektModel

/-- a scan whose `Glob`/`Lstat` phase sees `A` and whose `loadShard` calls read `B` -/
def scanStep2 (fv nv : Int) (w : WState) (A B : Disk) : WState :=
  match scan true fv nv A.ents w.ts with
  | .ok o => ⟨o.ts, applyLoads B w.loaded o.toDrop o.toLoad⟩
  | _ => w

theorem scanStep2_same (fv nv : Int) (w : WState) (D : Disk) : scanStep2 fv nv w D D = scanStep fv nv w D := rfl

/-- loosely in sync with a scan that stat'ed `A` and loaded from `B`: the table is `A`'s newest set; nothing else is
    loaded; each newest file of `A` is loaded with the content it had in `A` or the content it had in `B` -/
def Loose (fv nv : Int) (w : WState) (A B : Disk) : Prop :=
  w.ts = newestSpec fv nv A.ents ∧
  (∀ k, (newestSpec fv nv A.ents).get? k = none → w.loaded.get? k = none) ∧
  (∀ f ∈ A, picked fv nv A f = true →
    w.loaded.get? f.ent.fn = some f.content ∨ ∃ g ∈ B, g.ent.fn = f.ent.fn ∧ w.loaded.get? f.ent.fn = some g.content)

/-- mtimes identify versions across an overlapping scan: if a file has the same (shard, sidecar) mtimes when stat'ed by
    two consecutive scans (`A`, then `A'`), it did not change in between — in particular not at the moment `B` at which
    the first scan loaded it -/
def Stable (A B A' : Disk) : Prop :=
  ∀ f ∈ A, ∀ f' ∈ A', f.ent.fn = f'.ent.fn → stampOf f = stampOf f' → f.ent.mtime.isSome → f'.ent.mtime.isSome →
    f.content = f'.content ∧ ∀ g ∈ B, g.ent.fn = f.ent.fn → g.content = f'.content

/-- the files a scan decided to load still exist when it loads them (else `loadShard` fails; the next scan retries
    only if the mtime changed — excluded by `Stable` for a file that came back unchanged) -/
def LoadsSucceed (fv nv : Int) (A B : Disk) : Prop :=
  ∀ f ∈ A, picked fv nv A f = true → ∃ g ∈ B, g.ent.fn = f.ent.fn

theorem synced_loose (fv nv : Int) (w : WState) (D : Disk) (hn : NodupFn D) (h : Synced fv nv w D) : Loose fv nv w D D := by
  obtain ⟨h1, h2⟩ := h
  refine ⟨h1, ?_, ?_⟩
  · intro k hk; rw [h2 k]; exact support_none fv nv D hn k hk
  · intro f hf hp
    left
    rw [h2, content_get? fv nv D hn f hf, hp]; rfl

theorem loose_synced (fv nv : Int) (w : WState) (D : Disk) (hn : NodupFn D) (h : Loose fv nv w D D) : Synced fv nv w D := by
  obtain ⟨h1, h2, h3⟩ := h
  refine ⟨h1, ?_⟩
  intro k
  rcases key_cases D k with ⟨f, hf, rfl⟩ | habs
  · rw [content_get? fv nv D hn f hf]
    by_cases hp : picked fv nv D f = true
    · simp only [hp, ↓reduceIte]
      rcases h3 f hf hp with h | ⟨g, hg, hfn, h⟩
      · exact h
      · rw [h]
        have := disk_content? D hn g hg
        rw [hfn, disk_content? D hn f hf] at this
        exact this.symm ▸ rfl
    · have hp' : picked fv nv D f = false := by simpa using hp
      simp only [hp', Bool.false_eq_true, ↓reduceIte]
      apply h2
      rw [stamp_get? fv nv D hn f hf, hp']; rfl
  · rw [content_get?_absent fv nv D k habs]
    exact h2 k (stamp_get?_absent fv nv D k habs)

/-- **one overlapping scan keeps the watcher loosely in sync** -/
theorem scanStep2_loose (fv nv : Int) (h0 : supported fv nv 0 = true) (w : WState) (A B A' B' : Disk)
    (hs : Loose fv nv w A B) (hnA : NodupFn A) (hnA' : NodupFn A') (hnB' : NodupFn B')
    (hst : Stable A B A') (hls : LoadsSucceed fv nv A' B') :
    Loose fv nv (scanStep2 fv nv w A' B') A' B' := by
  obtain ⟨hts, hnone0, hsome0⟩ := hs
  unfold scanStep2
  rw [scan_spec fv nv h0]
  simp only [applyLoads]
  have hNn := newest_nodup fv nv A' hnA'
  have hOn : ((w.ts).map (·.1)).Nodup := by rw [hts]; exact newest_nodup fv nv A hnA
  refine ⟨rfl, ?_, ?_⟩
  · intro k hN
    have hL := mem_toLoad (newestSpec fv nv A'.ents) w.ts hNn k
    have hD := mem_toDrop (newestSpec fv nv A'.ents) w.ts hOn k
    have hnl : k ∉ loadKeys (newestSpec fv nv A'.ents) w.ts := by
      rw [hL]; rintro ⟨st, hg, _⟩; rw [hN] at hg; cases hg
    rw [get?_foldl_load_other B' _ _ k hnl, get?_foldl_erase]
    split
    · rfl
    · rename_i hnd
      rw [hD] at hnd
      have : w.ts.get? k = none := by
        cases hg : w.ts.get? k with
        | none => rfl
        | some st0 => exact absurd ⟨⟨st0, hg⟩, hN⟩ hnd
      rw [hts] at this
      exact hnone0 k this
  · intro f' hf' hp'
    have hL := mem_toLoad (newestSpec fv nv A'.ents) w.ts hNn f'.ent.fn
    have hD := mem_toDrop (newestSpec fv nv A'.ents) w.ts hOn f'.ent.fn
    have hstamp := stamp_get? fv nv A' hnA' f' hf'
    simp only [hp', ↓reduceIte] at hstamp
    by_cases hch : w.ts.get? f'.ent.fn = some (stampOf f')
    · -- not reloaded: the searcher loaded by an earlier scan is kept; `Stable` says it is current
      left
      have hnl : f'.ent.fn ∉ loadKeys (newestSpec fv nv A'.ents) w.ts := by
        rw [hL]; rintro ⟨st, hg, hc⟩; rw [hstamp] at hg; cases hg; exact hc hch
      have hnd : f'.ent.fn ∉ dropKeys (newestSpec fv nv A'.ents) w.ts := by
        rw [hD]; rintro ⟨_, hg⟩; rw [hstamp] at hg; cases hg
      rw [get?_foldl_load_other B' _ _ _ hnl, get?_foldl_erase, if_neg hnd]
      rw [hts] at hch
      rcases key_cases A f'.ent.fn with ⟨f, hf, hk⟩ | habs
      · have hs0 := stamp_get? fv nv A hnA f hf
        rw [hk, hch] at hs0
        by_cases hp : picked fv nv A f = true
        · simp only [hp, ↓reduceIte, Option.some.injEq] at hs0
          have hm : f.ent.mtime.isSome = true := by simp only [picked, Bool.and_eq_true] at hp; exact hp.1
          have hm' : f'.ent.mtime.isSome = true := by simp only [picked, Bool.and_eq_true] at hp'; exact hp'.1
          obtain ⟨hc1, hc2⟩ := hst f hf f' hf' hk hs0.symm hm hm'
          rcases hsome0 f hf hp with h | ⟨g, hg, hgfn, h⟩
          · rw [← hk, h, hc1]
          · rw [← hk, h, hc2 g hg hgfn]
        · simp [hp] at hs0
      · rw [stamp_get?_absent fv nv A _ habs] at hch; cases hch
    · -- (re)loaded now, from `B'`
      right
      obtain ⟨g, hg, hgfn⟩ := hls f' hf' hp'
      refine ⟨g, hg, hgfn, ?_⟩
      have hl : f'.ent.fn ∈ loadKeys (newestSpec fv nv A'.ents) w.ts := by
        rw [hL]; exact ⟨stampOf f', hstamp, hch⟩
      have hc := disk_content? B' hnB' g hg
      rw [hgfn] at hc
      rw [get?_foldl_load B' _ _ _ g.content hc, if_pos hl]

/-- a history of overlapping scans `(A₁,B₁), (A₂,B₂), …` -/
def GoodOverlap (fv nv : Int) : Disk → Disk → List (Disk × Disk) → Prop
  | _, _, [] => True
  | A, B, (A', B') :: rest =>
    NodupFn A' ∧ NodupFn B' ∧ Stable A B A' ∧ LoadsSucceed fv nv A' B' ∧ GoodOverlap fv nv A' B' rest

def runScans2 (fv nv : Int) (w : WState) (hs : List (Disk × Disk)) : WState :=
  hs.foldl (fun w ab => scanStep2 fv nv w ab.1 ab.2) w

theorem runScans2_loose (fv nv : Int) (h0 : supported fv nv 0 = true) :
    ∀ (hs : List (Disk × Disk)) (w : WState) (A B : Disk), Loose fv nv w A B → NodupFn A → GoodOverlap fv nv A B hs →
      Loose fv nv (runScans2 fv nv w hs) (((A, B) :: hs).getLast (by simp)).1 (((A, B) :: hs).getLast (by simp)).2 := by
  intro hs
  induction hs with
  | nil => intro w A B h _ _; simpa [runScans2] using h
  | cons ab rest ih =>
    intro w A B h hnA hg
    obtain ⟨A', B'⟩ := ab
    obtain ⟨hnA', hnB', hst, hls, hrest⟩ := hg
    have := ih (scanStep2 fv nv w A' B') A' B' (scanStep2_loose fv nv h0 w A B A' B' h hnA hnA' hnB' hst hls) hnA' hrest
    simpa [runScans2, List.getLast_cons] using this

/-- **convergence with scans that overlap directory changes**: start with nothing loaded; let any number of scans run
    while the directory changes under them (`GoodOverlap`: distinct names, mtimes identify versions, files to load
    still exist), and let the last scan see an unchanging directory `D` (stat and load on the same state). Then the
    loaded set is exactly the newest files of `D` with their current contents. -/
theorem overlap_converges (fv nv : Int) (h0 : supported fv nv 0 = true) (hs : List (Disk × Disk)) (D : Disk)
    (hg : GoodOverlap fv nv [] [] (hs ++ [(D, D)])) :
    Synced fv nv (runScans2 fv nv ⟨[], []⟩ (hs ++ [(D, D)])) D := by
  have hl := runScans2_loose fv nv h0 (hs ++ [(D, D)]) ⟨[], []⟩ [] []
    (synced_loose fv nv _ [] (by simp [NodupFn]) (synced_empty fv nv)) (by simp [NodupFn]) hg
  have hlast : ((([] : Disk), ([] : Disk)) :: (hs ++ [(D, D)])).getLast (by simp) = (D, D) := by
    rw [List.getLast_cons (by simp)]; simp
  rw [hlast] at hl
  -- `D` has distinct names: it is the last element of a good history
  have hnD : NodupFn D := by
    clear hl hlast
    suffices ∀ (hs : List (Disk × Disk)) (A B : Disk), GoodOverlap fv nv A B (hs ++ [(D, D)]) → NodupFn D from
      this hs [] [] hg
    intro hs
    induction hs with
    | nil => intro A B h; exact h.1
    | cons ab rest ih => intro A B h; exact ih ab.1 ab.2 h.2.2.2.2
  exact loose_synced fv nv _ D hnD hl

/-! ### why the table must keep the stamps taken *before* the load

A tempting "optimisation": after `loader.load` returns, stat the loaded shards again and remember those stamps (the
shards were opened just now). If a shard is replaced after it was opened but before that second stat, the table then
holds the new file's mtime for the old, still-loaded content, and no later scan reloads it. -/

/-- a scan that stats `A`, loads from `A`, and then re-stats what it loaded in the later state `B` -/
def scanStepRestat (fv nv : Int) (w : WState) (A B : Disk) : WState :=
  match scan true fv nv A.ents w.ts with
  | .ok o =>
    let restat (kv : Bytes × Stamp) : Bytes × Stamp :=
      if o.toLoad.contains kv.1 then
        match B.find? (·.ent.fn == kv.1) with
        | some f => (match f.ent.mtime with
          | some mt => (kv.1, (mt, f.ent.side))
          | none => kv)
        | none => kv
      else kv
    ⟨o.ts.map restat, applyLoads A w.loaded o.toDrop o.toLoad⟩
  | _ => w

end ZoektModel.C19
