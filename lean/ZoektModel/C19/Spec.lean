/-
C19 — the property as executable predicates, evaluated by the driver on the *implementation's* behaviour.

Statement: while shards are added, replaced and removed under running searches, every search completes without a
crash and returns, for each repository, results from exactly one consistent version of its shard.  Once the directory
stops changing, the loaded shard set equals the newest-format *.zoekt files present on disk (with their sidecars).

* `checkVfp`   — `versionFromPath` returns (never panics: a panic kills the watcher goroutine and the process), and
                 what it returns is the documented decomposition `<name>_v<version>.<rest>` or `(path, 0)`.
* `checkScan`  — after one scan of a directory listing the watcher's table is exactly the newest supported version of
                 every shard name that can be stat'ed, with the mtimes of the shard and of its sidecar; what it asked the
                 loader to load is exactly what is new or whose shard or sidecar changed, what it asked to drop exactly
                 what is gone.
* `checkCow`   — on an observed run of replace / search-begin / search-end / finalizer events: every snapshot a search
                 works on has one version per key and is the state after a *complete* replace; a shard is closed only
                 when it is neither loaded nor in the snapshot of a running search, and at most once; the loaded set
                 after a replace is the old set with the batch applied.
-/
import ZoektModel.C19.Model
namespace ZoektModel.C19
open ZoektModel

def sameSet {α} [BEq α] (a b : List α) : Bool :=
  a.length == b.length && a.all b.contains && b.all a.contains

/-! ### versionFromPath -/

def checkVfp (path : Bytes) (out : Outcome (Bytes × Int)) : Option String :=
  match out with
  | .ok (name, v) =>
    if name == path && v == 0 then none
    else
      -- path = name ++ "_" ++ one byte ++ <integer> ++ "." ++ …, and name ends at the last "_"
      let rest := path.drop name.length
      if !(name.isPrefixOf path) then some "vfp-shape"
      else match rest with
        | 95 :: _ :: r =>
          if r.contains 95 then some "vfp-shape"
          else match indexOf 46 r with
            | some d => if atoi (r.take d) == some v then none else some "vfp-value"
            | none => some "vfp-shape"
        | _ => some "vfp-shape"
  | _ => some "vfp-panic"

/-! ### scan -/

def nameVer (e : Ent) : Bytes × Int :=
  match versionFromPath true e.fn with
  | .ok r => r
  | _ => (e.fn, 0)

def supported (fv nv v : Int) : Bool := !(v > fv && v > nv)

/-- the newest supported, non-negative version of each name, among the files that can be stat'ed -/
def newestSpec (fv nv : Int) (fs : List Ent) : Table Stamp :=
  fs.filterMap fun e =>
    let (name, v) := nameVer e
    match e.mtime with
    | none => none
    | some mt =>
      if v ≥ 0 && supported fv nv v &&
          fs.all (fun g => let (n', v') := nameVer g; !(n' == name && supported fv nv v') || v' ≤ v)
      then some (e.fn, (mt, e.side)) else none

def checkScan (fv nv : Int) (fs : List Ent) (old : Table Stamp) (out : Outcome ScanOut) : Option String :=
  match out with
  | .ok o =>
    if !sameSet o.ts (newestSpec fv nv fs) then some "scan-not-newest"
    else if !sameSet o.toLoad (loadKeys o.ts old) then some "scan-load-set"
    else if !sameSet o.toDrop (dropKeys o.ts old) then some "scan-drop-set"
    else none
  | .panic _ => some "scan-panic"
  | _ => some "scan-error"

/-! ### copy-on-write shard set: observed run -/

inductive CObs
  | replaced (batch : List (Nat × Bool)) (ranked : List (Nat × Nat))   -- `replace(batch)` returned; `getLoaded` now gives `ranked`
  | began (snap : List (Nat × Nat))                                     -- a search took its snapshot
  | ended (i : Nat)                                                     -- search `i` (in order of `began`) finished
  | closed (sids : List Nat)                                            -- finalizers ran `Close` on these
  deriving Repr

structure CBook where
  ranked : List (Nat × Nat) := []
  live : List (List (Nat × Nat)) := []     -- snapshots of running searches (ended ones emptied)
  closed : List Nat := []
  next : Nat := 0

def expectedAfter (ranked : List (Nat × Nat)) : List (Nat × Option Nat) → List (Nat × Nat)
  | [] => ranked
  | (k, some sid) :: t => expectedAfter (mapPut ranked k sid) t
  | (k, none) :: t => expectedAfter (mapErase ranked k) t

def checkCowStep (b : CBook) : CObs → Except String CBook
  | .replaced batch ranked =>
    let (assigned, n) := assignIds batch b.next
    if !nodupKeys (ranked.map (·.1)) then .error "snapshot-two-versions"
    else if !sameSet ranked (expectedAfter b.ranked assigned) then .error "replace-wrong-set"
    else .ok { b with ranked := ranked, next := n }
  | .began snap =>
    if !nodupKeys (snap.map (·.1)) then .error "snapshot-two-versions"
    else if !sameSet snap b.ranked then .error "snapshot-not-published"
    else .ok { b with live := b.live ++ [snap] }
  | .ended i => .ok { b with live := b.live.set i [] }
  | .closed sids =>
    if sids.any (fun s => b.ranked.any (·.2 == s) || b.live.any (·.any (·.2 == s))) then .error "closed-while-referenced"
    else if sids.any b.closed.contains || !nodupKeys sids then .error "closed-twice"
    else if sids.any (· ≥ b.next) then .error "closed-unknown"
    else .ok { b with closed := sids ++ b.closed }

def checkCow : CBook → List CObs → Option String
  | _, [] => none
  | b, o :: rest =>
    match checkCowStep b o with
    | .error e => some e
    | .ok b' => checkCow b' rest

/-! ### client-level operations: how the harness drives the real shard set, and what the model observes -/

/-- client-level operations on the shard set (what the harness does to the real `shardedSearcher`) -/
inductive COp
  | replace (batch : List (Nat × Bool))
  | begin
  | done (i : Nat)
  | gc (sids : List Nat)
  deriving Repr

def COp.acts : COp → List CAct
  | .replace batch =>
    [CAct.replaceBegin batch] ++ (if batch.isEmpty then [] else batch.map (fun _ => CAct.replaceKey) ++ [CAct.replaceStore])
  | .begin => [.searchBegin]
  | .done i => [.searchEnd i]
  | .gc sids => sids.map .finalize

/-- the observation the model makes of one operation -/
def COp.obs (s s' : CState) : COp → CObs
  | .replace batch => .replaced batch s'.ranked
  | .begin => .began s.ranked
  | .done i => .ended i
  | .gc sids => .closed sids

/-- run operations on the model (each as its sequence of small steps); `none` if a step is not enabled -/
def cowObs : CState → List COp → Option (List CObs)
  | _, [] => some []
  | s, op :: rest =>
    match crun s op.acts with
    | none => none
    | some s' => (cowObs s' rest).map (op.obs s s' :: ·)

end ZoektModel.C19
