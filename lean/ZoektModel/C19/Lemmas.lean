import ZoektModel.C19.Spec
namespace ZoektModel.C19
end ZoektModel.C19
