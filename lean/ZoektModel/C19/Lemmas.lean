import ZoektModel.C19.Spec
namespace ZoektModel.C19
open ZoektModel

/-! ### versionFromPath -/

theorem vfp_fixed_ok (path : Bytes) : ∃ r, versionFromPath true path = .ok r := by
  unfold versionFromPath
  split
  · exact ⟨_, rfl⟩
  · split
    · exact ⟨_, rfl⟩
    · dsimp only
      split
      · exact ⟨_, rfl⟩
      · split <;> exact ⟨_, rfl⟩

theorem vfp_old_ok_eq (path : Bytes) (r : Bytes × Int) (h : versionFromPath false path = .ok r) :
    versionFromPath true path = .ok r := by
  unfold versionFromPath at h ⊢
  cases h1 : lastIndexOf 95 path with
  | none => simpa [h1] using h
  | some und =>
    simp only [h1] at h ⊢
    cases h2 : indexOf 46 (path.drop und) with
    | none => simpa [h2] using h
    | some d =>
      simp only [h2] at h ⊢
      by_cases hc : und + 2 > d + und
      · simp [hc] at h
      · simpa [hc] using h

/-- `nameVer` is `versionFromPath true` without the `Outcome` wrapper -/
theorem vfp_eq_nameVer (e : Ent) : versionFromPath true e.fn = .ok (nameVer e) := by
  obtain ⟨r, hr⟩ := vfp_fixed_ok e.fn
  simp [nameVer, hr]

/-! ### tables -/

theorem get?_put_same {β} (t : Table β) (k : Bytes) (v : β) : (t.put k v).get? k = some v := by
  induction t with
  | nil => simp [Table.put, Table.get?]
  | cons a t ih =>
    obtain ⟨k', v'⟩ := a
    by_cases h : (k' == k) = true
    · simp [Table.put, Table.get?, h]
    · simp only [Table.put, h]
      simp only [Table.get?] at ih ⊢
      simp [List.find?_cons, h, ih]

theorem get?_put_other {β} (t : Table β) (k k' : Bytes) (v : β) (hne : k' ≠ k) :
    (t.put k v).get? k' = t.get? k' := by
  induction t with
  | nil =>
    have : (k == k') = false := by simpa using fun h => hne h.symm
    simp [Table.put, Table.get?, this]
  | cons a t ih =>
    obtain ⟨k0, v0⟩ := a
    by_cases h : (k0 == k) = true
    · have hk : k0 = k := by simpa using h
      have : (k0 == k') = false := by rw [hk]; simpa using fun h => hne h.symm
      simp [Table.put, Table.get?, h, List.find?_cons, this]
    · simp only [Table.put, h]
      simp only [Table.get?] at ih ⊢
      by_cases h2 : (k0 == k') = true
      · simp [List.find?_cons, h2]
      · simp [List.find?_cons, h2, ih]

/-! ### first loop of scan: newest supported version per name -/

/-- the value the first loop computes for `name`: the largest supported version among the files of that name, at least 0 -/
def bestVer (fv nv : Int) (n : Bytes) : List Ent → Int → Int
  | [], acc => acc
  | e :: rest, acc =>
    let (n', v) := nameVer e
    if n' == n && supported fv nv v && acc < v then bestVer fv nv n rest v else bestVer fv nv n rest acc

def pureStep (fv nv : Int) (m : Table Int) (e : Ent) : Table Int :=
  let (name, version) := nameVer e
  if version > fv && version > nv then m
  else if latestGet m name < version then m.put name version else m

theorem latestStep_ok (fv nv : Int) (m : Table Int) (e : Ent) :
    latestStep true fv nv (.ok m) e = .ok (pureStep fv nv m e) := by
  simp only [latestStep, vfp_eq_nameVer, pureStep]
  split <;> (try split) <;> rfl

theorem latestOf_ok (fv nv : Int) (fs : List Ent) :
    latestOf true fv nv fs = .ok (fs.foldl (pureStep fv nv) []) := by
  unfold latestOf
  suffices ∀ (m : Table Int), fs.foldl (latestStep true fv nv) (.ok m) = .ok (fs.foldl (pureStep fv nv) m) from this []
  induction fs with
  | nil => intro m; rfl
  | cons e t ih => intro m; simp only [List.foldl_cons, latestStep_ok, ih]

theorem bestVer_cons (fv nv : Int) (n : Bytes) (e : Ent) (t : List Ent) (acc : Int) :
    bestVer fv nv n (e :: t) acc = bestVer fv nv n t
      (if (nameVer e).1 == n && supported fv nv (nameVer e).2 && acc < (nameVer e).2 then (nameVer e).2 else acc) := by
  simp only [bestVer]
  split <;> rfl

theorem latestGet_pureStep (fv nv : Int) (n : Bytes) (m : Table Int) (e : Ent) :
    latestGet (pureStep fv nv m e) n =
      (if (nameVer e).1 == n && supported fv nv (nameVer e).2 && latestGet m n < (nameVer e).2 then (nameVer e).2
       else latestGet m n) := by
  unfold pureStep
  generalize nameVer e = nvp
  obtain ⟨n', v⟩ := nvp
  simp only [supported]
  by_cases hs : (v > fv && v > nv) = true
  · simp [hs]
  · simp only [hs, Bool.false_eq_true, ↓reduceIte, Bool.not_false, Bool.and_true]
    by_cases hn : n' = n
    · subst hn
      by_cases hlt : latestGet m n' < v
      · simp only [hlt, ↓reduceIte, BEq.rfl, decide_true, Bool.and_self]
        simp [latestGet, get?_put_same]
      · simp [hlt]
    · have hb : (n' == n) = false := by simpa using hn
      simp only [hb, Bool.false_and, Bool.false_eq_true, ↓reduceIte]
      split
      · simp only [latestGet]; rw [get?_put_other _ _ _ _ (fun h => hn h.symm)]
      · rfl

theorem latestGet_fold (fv nv : Int) (n : Bytes) : ∀ (fs : List Ent) (m : Table Int),
    latestGet (fs.foldl (pureStep fv nv) m) n = bestVer fv nv n fs (latestGet m n) := by
  intro fs
  induction fs with
  | nil => intro m; rfl
  | cons e t ih =>
    intro m
    rw [List.foldl_cons, ih, bestVer_cons, latestGet_pureStep]

theorem bestVer_ge_acc (fv nv : Int) (n : Bytes) : ∀ (fs : List Ent) (acc : Int), acc ≤ bestVer fv nv n fs acc := by
  intro fs
  induction fs with
  | nil => intro acc; exact Int.le_refl _
  | cons e t ih =>
    intro acc
    simp only [bestVer]
    generalize nameVer e = p
    obtain ⟨n', v⟩ := p
    dsimp only
    split
    · rename_i h
      have : acc < v := by simp at h; exact h.2
      exact Int.le_trans (Int.le_of_lt this) (ih v)
    · exact ih acc

theorem bestVer_ge_mem (fv nv : Int) (n : Bytes) : ∀ (fs : List Ent) (acc : Int) (g : Ent), g ∈ fs →
    (nameVer g).1 = n → supported fv nv (nameVer g).2 = true → (nameVer g).2 ≤ bestVer fv nv n fs acc := by
  intro fs
  induction fs with
  | nil => intro acc g hg; simp at hg
  | cons e t ih =>
    intro acc g hg hn hs
    simp only [bestVer]
    rcases List.mem_cons.mp hg with rfl | hg
    · generalize hp : nameVer g = p at hn hs
      obtain ⟨n', v⟩ := p
      dsimp only at hn hs ⊢
      subst hn
      by_cases hlt : acc < v
      · simp only [hs, hlt, BEq.rfl, Bool.and_self, decide_true, ↓reduceIte]
        exact bestVer_ge_acc fv nv n' t v
      · simp only [hlt, decide_false, Bool.and_false, Bool.false_eq_true, ↓reduceIte]
        exact Int.le_trans (Int.not_lt.mp hlt) (bestVer_ge_acc fv nv n' t acc)
    · generalize nameVer e = p
      obtain ⟨n', v⟩ := p
      dsimp only
      split
      · exact ih _ g hg hn hs
      · exact ih _ g hg hn hs

/-- the result is the start value or the version of a supported file of that name -/
theorem bestVer_attained (fv nv : Int) (n : Bytes) : ∀ (fs : List Ent) (acc : Int),
    bestVer fv nv n fs acc = acc ∨
      ∃ g ∈ fs, (nameVer g).1 = n ∧ supported fv nv (nameVer g).2 = true ∧ (nameVer g).2 = bestVer fv nv n fs acc := by
  intro fs
  induction fs with
  | nil => intro acc; exact Or.inl rfl
  | cons e t ih =>
    intro acc
    simp only [bestVer]
    generalize hp : nameVer e = p
    obtain ⟨n', v⟩ := p
    dsimp only
    split
    · rename_i h
      simp only [Bool.and_eq_true, beq_iff_eq, decide_eq_true_eq] at h
      rcases ih v with h1 | ⟨g, hg, h2⟩
      · right; exact ⟨e, by simp, by simp [hp, h.1.1], by simp [hp, h.1.2], by simp [hp, h1]⟩
      · right; exact ⟨g, by simp [hg], h2⟩
    · rcases ih acc with h1 | ⟨g, hg, h2⟩
      · exact Or.inl h1
      · right; exact ⟨g, by simp [hg], h2⟩

/-- the newest-version test of the declarative statement, for one file `e` against the whole listing `L` -/
def isNewest (fv nv : Int) (L : List Ent) (e : Ent) : Bool :=
  (nameVer e).2 ≥ 0 && supported fv nv (nameVer e).2 &&
    L.all (fun g => !((nameVer g).1 == (nameVer e).1 && supported fv nv (nameVer g).2) || (nameVer g).2 ≤ (nameVer e).2)

theorem bestVer_eq_iff (fv nv : Int) (h0 : supported fv nv 0 = true) (L : List Ent) (e : Ent) (he : e ∈ L) :
    bestVer fv nv (nameVer e).1 L 0 = (nameVer e).2 ↔ isNewest fv nv L e = true := by
  simp only [isNewest, Bool.and_eq_true, decide_eq_true_eq, List.all_eq_true, Bool.or_eq_true, Bool.not_eq_true',
    Bool.and_eq_false_iff, beq_eq_false_iff_ne]
  constructor
  · intro hb
    refine ⟨⟨?_, ?_⟩, ?_⟩
    · rw [← hb]; exact bestVer_ge_acc fv nv _ L 0
    · rcases bestVer_attained fv nv (nameVer e).1 L 0 with h | ⟨g, _, _, hs, hv⟩
      · rw [← hb, h]; exact h0
      · rw [← hb, ← hv]; exact hs
    · intro g hg
      by_cases hn : (nameVer g).1 = (nameVer e).1
      · by_cases hs : supported fv nv (nameVer g).2 = true
        · right; rw [← hb]; exact bestVer_ge_mem fv nv _ L 0 g hg hn hs
        · left; right; simpa using hs
      · left; left; exact hn
  · rintro ⟨⟨hge, hs⟩, hall⟩
    apply Int.le_antisymm
    · rcases bestVer_attained fv nv (nameVer e).1 L 0 with h | ⟨g, hg, hn, hsg, hv⟩
      · rw [h]; exact hge
      · rw [← hv]
        rcases hall g hg with (h | h) | h
        · exact absurd hn h
        · rw [hsg] at h; exact absurd h (by simp)
        · exact h
    · exact bestVer_ge_mem fv nv _ L 0 e he rfl hs

/-- `newestSpec` with the listing it ranges over made explicit -/
def newestOn (fv nv : Int) (L : List Ent) (l : List Ent) : Table Stamp :=
  l.filterMap fun e =>
    match e.mtime with
    | none => none
    | some mt => if isNewest fv nv L e then some (e.fn, (mt, e.side)) else none

theorem newestSpec_eq (fv nv : Int) (L : List Ent) : newestSpec fv nv L = newestOn fv nv L L := by
  unfold newestSpec newestOn isNewest
  apply congrArg (fun f => List.filterMap f L)
  funext e
  generalize nameVer e = p
  obtain ⟨n, v⟩ := p
  cases e.mtime <;> rfl

theorem tsOf_eq (fv nv : Int) (h0 : supported fv nv 0 = true) (L : List Ent) :
    ∀ (l : List Ent), (∀ e ∈ l, e ∈ L) →
      tsOf true (L.foldl (pureStep fv nv) []) l = newestOn fv nv L l := by
  intro l
  induction l with
  | nil => intro _; rfl
  | cons e t ih =>
    intro hsub
    have he : e ∈ L := hsub e (by simp)
    have iht := ih (fun x hx => hsub x (by simp [hx]))
    have key := bestVer_eq_iff fv nv h0 L e he
    have hlg : latestGet (L.foldl (pureStep fv nv) []) (nameVer e).1 = bestVer fv nv (nameVer e).1 L 0 := by
      rw [latestGet_fold]; rfl
    rw [← hlg] at key
    simp only [tsOf, vfp_eq_nameVer, newestOn, List.filterMap_cons]
    by_cases hb : isNewest fv nv L e = true
    · have hk := key.mpr hb
      simp only [hk, bne_self_eq_false, Bool.false_eq_true, ↓reduceIte, hb]
      cases e.mtime with
      | none => exact iht
      | some mt => simp only []; rw [iht]; rfl
    · have hk : ¬ _ := fun h => hb (key.mp h)
      have hne : (latestGet (L.foldl (pureStep fv nv) []) (nameVer e).1 != (nameVer e).2) = true := by
        simpa using hk
      simp only [hne, ↓reduceIte]
      have hb' : isNewest fv nv L e = false := by simpa using hb
      cases e.mtime with
      | none => exact iht
      | some mt => simp only [hb', Bool.false_eq_true, ↓reduceIte]; exact iht

/-- **what one scan computes**: it never fails, and its new table is exactly the declarative newest set -/
theorem scan_spec (fv nv : Int) (h0 : supported fv nv 0 = true) (fs : List Ent) (old : Table Stamp) :
    scan true fv nv fs old = .ok
      ⟨newestSpec fv nv fs, dropKeys (newestSpec fv nv fs) old, loadKeys (newestSpec fv nv fs) old⟩ := by
  unfold scan
  rw [latestOf_ok]
  simp only [tsOf_eq fv nv h0 fs fs (fun _ h => h), ← newestSpec_eq]

/-- a key of a table built by `filterMap` over distinct file names finds its own entry -/
theorem get?_self_of_nodup {β} : ∀ (t : Table β), (t.map (·.1)).Nodup → ∀ kv ∈ t, t.get? kv.1 = some kv.2 := by
  intro t
  induction t with
  | nil => intro _ kv h; simp at h
  | cons a r ih =>
    intro hn kv hkv
    simp only [List.map_cons, List.nodup_cons] at hn
    rcases List.mem_cons.mp hkv with rfl | hmem
    · simp [Table.get?]
    · have hne : (a.1 == kv.1) = false := by
        have : a.1 ≠ kv.1 := fun h => hn.1 (h ▸ List.mem_map.mpr ⟨kv, hmem, rfl⟩)
        simpa using this
      have := ih hn.2 kv hmem
      simp only [Table.get?] at this ⊢
      simp [List.find?_cons, hne, this]

theorem newestSpec_keys_sublist (fv nv : Int) (fs : List Ent) :
    ((newestSpec fv nv fs).map (·.1)).Sublist (fs.map (·.fn)) := by
  rw [newestSpec_eq]
  unfold newestOn
  generalize fs = L at *
  suffices ∀ l : List Ent, ((l.filterMap fun e => match e.mtime with
      | none => none
      | some mt => if isNewest fv nv L e then some (e.fn, (mt, e.side)) else none).map (·.1)).Sublist (l.map (·.fn)) from
    this L
  intro l
  induction l with
  | nil => simp
  | cons e t ih =>
    simp only [List.filterMap_cons, List.map_cons]
    split
    · exact List.Sublist.cons _ ih
    · rename_i b hb
      have hfn : b.1 = e.fn := by
        cases hm : e.mtime with
        | none => simp [hm] at hb
        | some mt =>
          simp only [hm] at hb
          split at hb
          · simp only [Option.some.injEq] at hb; rw [← hb]
          · simp at hb
      simp only [List.map_cons, hfn]
      exact ih.cons₂ _

/-! ### copy-on-write shard set -/

theorem nodupKeys_iff (l : List Nat) : nodupKeys l = true ↔ l.Nodup := by
  induction l with
  | nil => simp [nodupKeys]
  | cons a t ih => simp [nodupKeys, List.nodup_cons, ih]

def keysOf (m : List (Nat × Nat)) : List Nat := m.map (·.1)
def sidsOf (m : List (Nat × Nat)) : List Nat := m.map (·.2)

theorem keys_mapErase (m : List (Nat × Nat)) (k : Nat) : keysOf (mapErase m k) = (keysOf m).filter (· != k) := by
  induction m with
  | nil => rfl
  | cons a t ih =>
    simp only [mapErase, keysOf] at ih ⊢
    simp only [List.filter_cons, List.map_cons]
    split <;> simp [ih]

theorem nodup_mapErase (m : List (Nat × Nat)) (k : Nat) (h : (keysOf m).Nodup) : (keysOf (mapErase m k)).Nodup := by
  rw [keys_mapErase]; exact h.sublist List.filter_sublist

theorem nodup_mapPut (m : List (Nat × Nat)) (k : Nat) (v : Nat) (h : (keysOf m).Nodup) : (keysOf (mapPut m k v)).Nodup := by
  simp only [mapPut, keysOf, List.map_append, List.map_cons, List.map_nil]
  rw [List.nodup_append]
  refine ⟨nodup_mapErase m k h, by simp, ?_⟩
  intro a ha b hb
  simp only [List.mem_singleton] at hb
  rw [hb]
  have := keys_mapErase m k
  simp only [keysOf] at this
  rw [this] at ha
  simpa using (List.mem_filter.mp ha).2

theorem sids_mapErase_sub (m : List (Nat × Nat)) (k : Nat) : ∀ x ∈ sidsOf (mapErase m k), x ∈ sidsOf m := by
  intro x hx
  simp only [sidsOf, mapErase, List.mem_map, List.mem_filter] at hx ⊢
  obtain ⟨a, ⟨ha, _⟩, rfl⟩ := hx
  exact ⟨a, ha, rfl⟩

theorem sids_mapPut_sub (m : List (Nat × Nat)) (k : Nat) (v : Nat) : ∀ x ∈ sidsOf (mapPut m k v), x = v ∨ x ∈ sidsOf m := by
  intro x hx
  simp only [sidsOf, mapPut, List.map_append, List.mem_append, List.map_cons, List.map_nil, List.mem_singleton] at hx
  rcases hx with hx | hx
  · exact Or.inr (sids_mapErase_sub m k x hx)
  · exact Or.inl hx

/-- first invariant: what searches see -/
structure CInv1 (s : CState) : Prop where
  pub_ranked : s.ranked ∈ s.published
  pub_search : ∀ x ∈ s.searches, x = [] ∨ x ∈ s.published
  pub_nodup : ∀ p ∈ s.published, (keysOf p).Nodup
  shards_nodup : (keysOf s.shards).Nodup

theorem cinv1_init : CInv1 CState.init :=
  ⟨by simp [CState.init], by simp [CState.init], by simp [CState.init, keysOf], by simp [CState.init, keysOf]⟩

theorem cinv1_step {s s' : CState} {a : CAct} (h : CInv1 s) (hs : cstep s a = some s') : CInv1 s' := by
  obtain ⟨h1, h2, h3, h4⟩ := h
  cases a with
  | replaceBegin batch =>
    simp only [cstep] at hs
    split at hs
    · simp at hs
    · split at hs
      · simp only [Option.some.injEq] at hs; subst hs; exact ⟨h1, h2, h3, h4⟩
      · simp only [Option.some.injEq] at hs; subst hs; exact ⟨h1, h2, h3, h4⟩
  | replaceKey =>
    simp only [cstep] at hs
    split at hs
    · simp only [Option.some.injEq] at hs
      subst hs
      refine ⟨h1, h2, h3, ?_⟩
      dsimp only
      split
      · exact nodup_mapPut _ _ _ h4
      · exact nodup_mapErase _ _ h4
    · simp at hs
  | replaceStore =>
    simp only [cstep] at hs
    split at hs
    · simp only [Option.some.injEq] at hs
      subst hs
      refine ⟨by simp, ?_, ?_, h4⟩
      · intro x hx
        rcases h2 x hx with h | h
        · exact Or.inl h
        · exact Or.inr (by simp [h])
      · intro p hp
        rcases List.mem_cons.mp hp with rfl | hp
        · exact h4
        · exact h3 p hp
    · simp at hs
  | searchBegin =>
    simp only [cstep, Option.some.injEq] at hs
    subst hs
    refine ⟨h1, ?_, h3, h4⟩
    intro x hx
    rcases List.mem_append.mp hx with hx | hx
    · exact h2 x hx
    · simp only [List.mem_singleton] at hx; subst hx; exact Or.inr h1
  | searchEnd i =>
    simp only [cstep] at hs
    split at hs
    · simp only [Option.some.injEq] at hs
      subst hs
      refine ⟨h1, ?_, h3, h4⟩
      intro x hx
      rcases List.mem_or_eq_of_mem_set hx with hx | rfl
      · exact h2 x hx
      · exact Or.inl rfl
    · simp at hs
  | finalize sid =>
    simp only [cstep] at hs
    split at hs
    · simp only [Option.some.injEq] at hs; subst hs; exact ⟨h1, h2, h3, h4⟩
    · simp at hs

theorem creach_inv1 {s : CState} (h : CReach s) : CInv1 s := by
  induction h with
  | init => exact cinv1_init
  | step a _ hs ih => exact cinv1_step ih hs

/-- something still refers to searcher `sid`: the map, the published list, or the snapshot of a running search -/
def Reachable (s : CState) (sid : Nat) : Prop :=
  sid ∈ sidsOf s.shards ∨ sid ∈ sidsOf s.ranked ∨ ∃ x ∈ s.searches, sid ∈ sidsOf x

theorem any_snd_iff (m : List (Nat × Nat)) (sid : Nat) : (m.any (·.2 == sid)) = true ↔ sid ∈ sidsOf m := by
  simp only [List.any_eq_true, beq_iff_eq, sidsOf, List.mem_map]

theorem reachable_iff (s : CState) (sid : Nat) : reachable s sid = true ↔ Reachable s sid := by
  unfold reachable Reachable
  rw [Bool.or_eq_true, Bool.or_eq_true, any_snd_iff, any_snd_iff, List.any_eq_true]
  constructor
  · rintro ((h | h) | ⟨x, hx, h⟩)
    · exact Or.inl h
    · exact Or.inr (Or.inl h)
    · exact Or.inr (Or.inr ⟨x, hx, (any_snd_iff x sid).mp h⟩)
  · rintro (h | h | ⟨x, hx, h⟩)
    · exact Or.inl (Or.inl h)
    · exact Or.inl (Or.inr h)
    · exact Or.inr ⟨x, hx, (any_snd_iff x sid).mpr h⟩

def pendNew (s : CState) : List Nat :=
  match s.pending with
  | none => []
  | some l => l.filterMap (·.2)

theorem assignIds_spec : ∀ (batch : List (Nat × Bool)) (n : Nat),
    n ≤ (assignIds batch n).2 ∧
    (∀ x ∈ (assignIds batch n).1.filterMap (·.2), n ≤ x ∧ x < (assignIds batch n).2) ∧
    ((assignIds batch n).1.filterMap (·.2)).Nodup := by
  intro batch
  induction batch with
  | nil => intro n; simp [assignIds]
  | cons a t ih =>
    intro n
    obtain ⟨k, b⟩ := a
    cases b with
    | true =>
      obtain ⟨h1, h2, h3⟩ := ih (n + 1)
      simp only [assignIds, List.filterMap_cons]
      refine ⟨by omega, ?_, ?_⟩
      · intro x hx
        rcases List.mem_cons.mp hx with rfl | hx
        · omega
        · have := h2 x hx; omega
      · rw [List.nodup_cons]
        refine ⟨fun hmem => ?_, h3⟩
        have := h2 n hmem; omega
    | false =>
      obtain ⟨h1, h2, h3⟩ := ih n
      simp only [assignIds, List.filterMap_cons]
      exact ⟨h1, h2, h3⟩

theorem mapGet_mem (m : List (Nat × Nat)) (k : Nat) (o : Nat) (h : mapGet m k = some o) : o ∈ sidsOf m := by
  simp only [mapGet, Option.map_eq_some_iff] at h
  obtain ⟨a, ha, rfl⟩ := h
  exact List.mem_map.mpr ⟨a, List.mem_of_find?_eq_some ha, rfl⟩

/-- second invariant: closed searchers are unreachable; new searchers are fresh -/
structure CInv2 (s : CState) : Prop where
  closed_unreach : ∀ c ∈ s.closed, ¬ Reachable s c
  bound : ∀ x, (Reachable s x ∨ x ∈ s.finalizable ∨ x ∈ s.closed) → x < s.next ∧ x ∉ pendNew s
  pend_lt : ∀ x ∈ pendNew s, x < s.next
  pend_nodup : (pendNew s).Nodup
  closed_fin : ∀ c ∈ s.closed, c ∈ s.finalizable

theorem cinv2_init : CInv2 CState.init := by
  refine ⟨?_, ?_, ?_, ?_, ?_⟩ <;> simp [CState.init, Reachable, sidsOf, pendNew]

theorem cinv2_step {s s' : CState} {a : CAct} (h : CInv2 s) (hs : cstep s a = some s') : CInv2 s' := by
  obtain ⟨h1, h2, h3, h4, h5⟩ := h
  cases a with
  | replaceBegin batch =>
    simp only [cstep] at hs
    split at hs
    · simp at hs
    · rename_i hg
      split at hs
      · simp only [Option.some.injEq] at hs; subst hs; exact ⟨h1, h2, h3, h4, h5⟩
      · simp only [Option.some.injEq] at hs
        subst hs
        have hnone : s.pending = none := by
          cases hp : s.pending with
          | none => rfl
          | some _ => simp [hp] at hg
        obtain ⟨a1, a2, a3⟩ := assignIds_spec batch s.next
        refine ⟨h1, ?_, ?_, ?_, h5⟩
        · intro x hx
          have := (h2 x hx).1
          refine ⟨by show x < (assignIds batch s.next).2; omega, ?_⟩
          intro hmem
          have := a2 x hmem
          omega
        · intro x hx; exact (a2 x hx).2
        · exact a3
  | replaceKey =>
    simp only [cstep] at hs
    split at hs
    · rename_i k v rest hpend
      simp only [Option.some.injEq] at hs
      have hpn : pendNew s = v.toList ++ rest.filterMap (·.2) := by
        simp only [pendNew, hpend, List.filterMap_cons]
        cases v <;> rfl
      have hpn' : pendNew s' = rest.filterMap (·.2) := by subst hs; rfl
      -- what became reachable: only the new searcher of this key
      have hreach : ∀ x, Reachable s' x → (v = some x) ∨ Reachable s x := by
        intro x hx
        subst hs
        rcases hx with hx | hx | hx
        · dsimp only at hx
          cases v with
          | some sid =>
            rcases sids_mapPut_sub _ _ _ x hx with rfl | hx
            · exact Or.inl rfl
            · exact Or.inr (Or.inl hx)
          | none => exact Or.inr (Or.inl (sids_mapErase_sub _ _ x hx))
        · exact Or.inr (Or.inr (Or.inl hx))
        · exact Or.inr (Or.inr (Or.inr hx))
      have hfin : ∀ x ∈ s'.finalizable, x ∈ s.finalizable ∨ Reachable s x := by
        intro x hx
        subst hs
        dsimp only at hx
        split at hx
        · rename_i o ho
          rcases List.mem_cons.mp hx with rfl | hx
          · exact Or.inr (Or.inl (mapGet_mem _ _ _ ho))
          · exact Or.inl hx
        · exact Or.inl hx
      have hclosed : s'.closed = s.closed := by subst hs; rfl
      have hnext : s'.next = s.next := by subst hs; rfl
      refine ⟨?_, ?_, ?_, ?_, ?_⟩
      · intro c hc hr
        rw [hclosed] at hc
        rcases hreach c hr with hv | hr
        · have := (h2 c (Or.inr (Or.inr hc))).2
          rw [hpn, hv] at this
          simp at this
        · exact h1 c hc hr
      · intro x hx
        rw [hnext, hpn']
        have old : (Reachable s x ∨ x ∈ s.finalizable ∨ x ∈ s.closed) → x < s.next ∧ x ∉ rest.filterMap (·.2) := by
          intro hh
          have := h2 x hh
          rw [hpn] at this
          exact ⟨this.1, fun hm => this.2 (List.mem_append_right _ hm)⟩
        rcases hx with hr | hf | hc
        · rcases hreach x hr with hv | hr
          · subst hv
            have hm : x ∈ pendNew s := by rw [hpn]; simp
            refine ⟨h3 x hm, ?_⟩
            have := h4
            rw [hpn] at this
            simp only [Option.toList, List.singleton_append, List.nodup_cons] at this
            exact this.1
          · exact old (Or.inl hr)
        · rcases hfin x hf with hf | hr
          · exact old (Or.inr (Or.inl hf))
          · exact old (Or.inl hr)
        · rw [hclosed] at hc; exact old (Or.inr (Or.inr hc))
      · intro x hx
        rw [hnext]
        rw [hpn'] at hx
        exact h3 x (by rw [hpn]; exact List.mem_append_right _ hx)
      · rw [hpn']
        have := h4
        rw [hpn] at this
        exact (List.nodup_append.mp this).2.1
      · intro c hc
        rw [hclosed] at hc
        subst hs
        dsimp only
        split
        · exact List.mem_cons_of_mem _ (h5 c hc)
        · exact h5 c hc
    · simp at hs
  | replaceStore =>
    simp only [cstep] at hs
    split at hs
    · rename_i hpend
      simp only [Option.some.injEq] at hs
      subst hs
      have hreach : ∀ x, Reachable { s with ranked := s.shards, pending := none, published := s.shards :: s.published } x →
          Reachable s x := by
        intro x hx
        rcases hx with hx | hx | hx
        · exact Or.inl hx
        · exact Or.inl hx
        · exact Or.inr (Or.inr hx)
      refine ⟨fun c hc hr => h1 c hc (hreach c hr), ?_, ?_, ?_, h5⟩
      · intro x hx
        have : Reachable s x ∨ x ∈ s.finalizable ∨ x ∈ s.closed := by
          rcases hx with hr | hf | hc
          · exact Or.inl (hreach x hr)
          · exact Or.inr (Or.inl hf)
          · exact Or.inr (Or.inr hc)
        exact ⟨(h2 x this).1, by simp [pendNew]⟩
      · intro x hx; simp [pendNew] at hx
      · simp [pendNew]
    · simp at hs
  | searchBegin =>
    simp only [cstep, Option.some.injEq] at hs
    subst hs
    have hreach : ∀ x, Reachable { s with searches := s.searches ++ [s.ranked] } x → Reachable s x := by
      intro x hx
      rcases hx with hx | hx | ⟨y, hy, hx⟩
      · exact Or.inl hx
      · exact Or.inr (Or.inl hx)
      · rcases List.mem_append.mp hy with hy | hy
        · exact Or.inr (Or.inr ⟨y, hy, hx⟩)
        · simp only [List.mem_singleton] at hy; subst hy; exact Or.inr (Or.inl hx)
    refine ⟨fun c hc hr => h1 c hc (hreach c hr), ?_, h3, h4, h5⟩
    intro x hx
    apply h2
    rcases hx with hr | hf | hc
    · exact Or.inl (hreach x hr)
    · exact Or.inr (Or.inl hf)
    · exact Or.inr (Or.inr hc)
  | searchEnd i =>
    simp only [cstep] at hs
    split at hs
    · simp only [Option.some.injEq] at hs
      subst hs
      have hreach : ∀ x, Reachable { s with searches := s.searches.set i [] } x → Reachable s x := by
        intro x hx
        rcases hx with hx | hx | ⟨y, hy, hx⟩
        · exact Or.inl hx
        · exact Or.inr (Or.inl hx)
        · rcases List.mem_or_eq_of_mem_set hy with hy | rfl
          · exact Or.inr (Or.inr ⟨y, hy, hx⟩)
          · simp [sidsOf] at hx
      refine ⟨fun c hc hr => h1 c hc (hreach c hr), ?_, h3, h4, h5⟩
      intro x hx
      apply h2
      rcases hx with hr | hf | hc
      · exact Or.inl (hreach x hr)
      · exact Or.inr (Or.inl hf)
      · exact Or.inr (Or.inr hc)
    · simp at hs
  | finalize sid =>
    simp only [cstep] at hs
    split at hs
    · rename_i hg
      simp only [Option.some.injEq] at hs
      subst hs
      simp only [Bool.and_eq_true, List.contains_eq_mem, decide_eq_true_eq, Bool.not_eq_true',
        decide_eq_false_iff_not] at hg
      obtain ⟨⟨hfin, _⟩, hunr⟩ := hg
      have hunr' : ¬ Reachable s sid := by
        intro hr
        have := (reachable_iff s sid).mpr hr
        simp [this] at hunr
      refine ⟨?_, ?_, h3, h4, ?_⟩
      · intro c hc hr
        rcases List.mem_cons.mp hc with rfl | hc
        · exact hunr' hr
        · exact h1 c hc hr
      · intro x hx
        apply h2
        rcases hx with hr | hf | hc
        · exact Or.inl hr
        · exact Or.inr (Or.inl hf)
        · rcases List.mem_cons.mp hc with rfl | hc
          · exact Or.inr (Or.inl hfin)
          · exact Or.inr (Or.inr hc)
      · intro c hc
        rcases List.mem_cons.mp hc with rfl | hc
        · exact hfin
        · exact h5 c hc
    · simp at hs

theorem creach_inv2 {s : CState} (h : CReach s) : CInv2 s := by
  induction h with
  | init => exact cinv2_init
  | step a _ hs ih => exact cinv2_step ih hs

end ZoektModel.C19
