import ZoektModel.C01.Driver
import ZoektModel.C02.Driver
import ZoektModel.C03.Driver
import ZoektModel.C04.Driver
import ZoektModel.C05.Driver
import ZoektModel.C06.Driver
import ZoektModel.C07.Driver
import ZoektModel.C08.Driver
import ZoektModel.C09.Driver
import ZoektModel.C10.Driver
import ZoektModel.C11.Driver
import ZoektModel.C12.Driver
import ZoektModel.C13.Driver
import ZoektModel.C14.Driver
import ZoektModel.C15.Driver
import ZoektModel.C16.Driver
import ZoektModel.C17.Driver
import ZoektModel.C18.Driver
import ZoektModel.C19.Driver
import ZoektModel.C20.Driver
import ZoektModel.C21.Driver
import ZoektModel.C22.Driver
import ZoektModel.C23.Driver
import ZoektModel.C24.Driver
import ZoektModel.C25.Driver
import ZoektModel.C26.Driver
import ZoektModel.C27.Driver
import ZoektModel.C28.Driver
import ZoektModel.C29.Driver
import ZoektModel.C30.Driver
import ZoektModel.C31.Driver
import ZoektModel.C32.Driver
import ZoektModel.C33.Driver
import ZoektModel.C34.Driver
import ZoektModel.C35.Driver
import ZoektModel.C36.Driver
import ZoektModel.C37.Driver
import ZoektModel.C38.Driver

def main (args : List String) : IO UInt32 := do
  match args with
  | ["C01"] => ZoektModel.C01.main; return 0
  | ["C02"] => ZoektModel.C02.main; return 0
  | ["C03"] => ZoektModel.C03.main; return 0
  | ["C04"] => ZoektModel.C04.main; return 0
  | ["C05"] => ZoektModel.C05.main; return 0
  | ["C06"] => ZoektModel.C06.main; return 0
  | ["C07"] => ZoektModel.C07.main; return 0
  | ["C08"] => ZoektModel.C08.main; return 0
  | ["C09"] => ZoektModel.C09.main; return 0
  | ["C10"] => ZoektModel.C10.main; return 0
  | ["C11"] => ZoektModel.C11.main; return 0
  | ["C12"] => ZoektModel.C12.main; return 0
  | ["C13"] => ZoektModel.C13.main; return 0
  | ["C14"] => ZoektModel.C14.main; return 0
  | ["C15"] => ZoektModel.C15.main; return 0
  | ["C16"] => ZoektModel.C16.main; return 0
  | ["C17"] => ZoektModel.C17.main; return 0
  | ["C18"] => ZoektModel.C18.main; return 0
  | ["C19"] => ZoektModel.C19.main; return 0
  | ["C20"] => ZoektModel.C20.main; return 0
  | ["C21"] => ZoektModel.C21.main; return 0
  | ["C22"] => ZoektModel.C22.main; return 0
  | ["C23"] => ZoektModel.C23.main; return 0
  | ["C24"] => ZoektModel.C24.main; return 0
  | ["C25"] => ZoektModel.C25.main; return 0
  | ["C26"] => ZoektModel.C26.main; return 0
  | ["C27"] => ZoektModel.C27.main; return 0
  | ["C28"] => ZoektModel.C28.main; return 0
  | ["C29"] => ZoektModel.C29.main; return 0
  | ["C30"] => ZoektModel.C30.main; return 0
  | ["C31"] => ZoektModel.C31.main; return 0
  | ["C32"] => ZoektModel.C32.main; return 0
  | ["C33"] => ZoektModel.C33.main; return 0
  | ["C34"] => ZoektModel.C34.main; return 0
  | ["C35"] => ZoektModel.C35.main; return 0
  | ["C36"] => ZoektModel.C36.main; return 0
  | ["C37"] => ZoektModel.C37.main; return 0
  | ["C38"] => ZoektModel.C38.main; return 0
  | _ => IO.eprintln "usage: zoektmodel Cxx < cases"; return 2
