#!/bin/sh
# Build the framework from files on disk only (offline). Run once after a fresh restore.
set -e
cd "$(dirname "$0")"
export GOFLAGS=-mod=mod GOPROXY=off
unset GOTOOLCHAIN GOSUMDB || true
mkdir -p lean/ZoektModel/Generated evidence replays .work
# translator tables first (Props modules import them); then every Lean module and the model driver
python3 tools/regen_all.py
(cd lean && lake build)
# warm the Go build cache for /repo with the verif tag and for the harness
python3 - <<'PY'
import importlib.util, importlib.machinery, os
loader = importlib.machinery.SourceFileLoader("check", os.path.join(os.getcwd(), "check"))
spec = importlib.util.spec_from_loader("check", loader); m = importlib.util.module_from_spec(spec); loader.exec_module(m)
m.prepare_harness_gomod()
PY
(cd harness && go build -tags verif ./... )
echo setup done
